"""C10 - parts the user controls are never rewritten."""
from .assign import assign_check


def _other_ops(chk):
    """the terms with user-controlled parts as never-compared snapshots and as `in` snapshots"""
    from . import assign
    from .. import assign_replay, pool, tlc
    from ..checklib import MachineryError
    for shape in ("seq", "dict", "nest"):
        ts_mc, ts, st, keep = assign.SIZES[chk.tier][shape]
        res = tlc.run_tlc("MC_Assign", "Assign_%s.cfg" % shape, workers=16, timeout=3000,
                          extra_files={"run.cfg": assign._cfg(shape, ["Emit"], {"Mode": "emit", "TStride": ts, "Stride": st * 4, "Offset": chk.seed % 7})})
        chk.add_tlc(res, "emit Assign_%s (terms for the never-compared / `in` clause)" % shape)
        try:
            cases = [c for c in assign_replay.load_cases(res.out_dir, seed=chk.seed, keep_every=1)
                     if c["A"] == ["update"] and assign_replay.RA.has_tag(c["tm"], {"is", "fs", "sl"})]
        finally:
            tlc.cleanup(res)
        cases = cases[: 3000 if chk.quick else 40000]
        by_id = {c["id"]: c for c in cases}
        errors = 0
        for out in pool.parallel_map(assign_replay._worker_other_ops, [(c, chk.seed) for c in pool.chunks(cases, 30)]):
            for r in out:
                if "error" in r:
                    errors += 1
                    print("driver error:", r["error"])
                    continue
                chk.count(1, "other|" + shape + r["id"])
                chk.validated(1)
                for m in r["mism"]:
                    chk.mismatch(m["clause"], {"clause": m["clause"], "shape": shape, "variant": m.get("variant")},
                                 {"kind": "assign-other-ops", "case": by_id[r["id"]], "seed": chk.seed, "mismatch": m,
                                  "module": r["text"]}, props=m["props"])
        if errors:
            raise MachineryError("%d replay jobs crashed" % errors)


def run():
    chk = assign_check("C10", shapes=["seq", "nest", "dict", "call", "inner"])     # (the shapes flat / pos have no user-controlled parts)
    if isinstance(chk, int):
        return chk
    _other_ops(chk)
    chk.assumptions += ["dirty-equals is not installed in this sandbox (is_dirty_equal is constantly False): that "
                        "sub-case cannot be exercised"]
    return chk.finish(
        rule="TLC checks that the user-controlled sub-terms (Is, f-string, starred display) of the result are an "
             "ordered selection of the original ones for every approved set; in the replay each such part carries a "
             "unique id in its source text and must occur unchanged (same syntax tree) wherever the model keeps it; nested "
             "snapshot() calls that the model keeps are still there (never edited through their parent); "
             "the same terms as never-compared snapshots and as `in` snapshots (update / fix+update): the user's parts keep "
             "their text; non-trivial = at least one pending category")
