"""C10 - parts the user controls are never rewritten."""
from .assign import assign_check


def run():
    chk = assign_check("C10", shapes=["seq", "nest", "dict", "call"])     # (the shapes flat / pos have no user-controlled parts)
    if isinstance(chk, int):
        return chk
    chk.assumptions += ["dirty-equals is not installed in this sandbox (is_dirty_equal is constantly False): that "
                        "sub-case cannot be exercised"]
    return chk.finish(
        rule="TLC checks that the user-controlled sub-terms (Is, f-string, starred display) of the result are an "
             "ordered selection of the original ones for every approved set; in the replay each such part carries a "
             "unique id in its source text and must occur unchanged (same syntax tree) wherever the model keeps it; "
             "non-trivial = at least one pending category")
