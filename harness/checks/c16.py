"""C16 - generated code is deterministic and independent of the formatter's presence."""
from .. import determinism_replay as dr, pool, tlc
from ..checklib import Check


def run():
    chk = Check("C16", "exploration")
    res = tlc.run_tlc("MC_CodeGen", "CodeGen.cfg", overrides={"Mode": "mc"}, workers=8, timeout=600)
    chk.add_tlc(res, "mc CodeGen (C16 Deterministic for every element class, C01)")
    if not res.ok:
        chk.spec_violation(res, "mc CodeGen")
    tlc.cleanup(res)
    # (the order of two strings in a set differs for roughly every other hash seed - but not evenly: ten seeds quick)
    seeds = [0, 1, 2, 3, 5, 7, 11, 42, 97, 1234] if chk.quick else list(range(24)) + [42, 97, 1234]
    seeds = [(s + chk.seed) % 4294967295 for s in seeds]
    jobs = [(variant, s, fmt) for variant in (0, 1) for s in seeds for fmt in ("black", "none", "cmd")]
    results = pool.parallel_map(dr.run_one, jobs)
    for r in results:
        chk.count(dr.NV)
    for k in range(dr.NV):
        for fmt in ("black", "none", "cmd"):
            chk.nontrivial.add("%d|%s" % (k, fmt))
    chk.sample({"value": dr.VALUES[11][1], "other_construction": dr.VALUES[11][2], "class": dr.VALUES[11][0],
                "written": next((r["args"][11] for r in results if r["args"]), None), "hash_seeds": seeds})
    chk.sample({"value": dr.VALUES[7][1], "class": dr.VALUES[7][0], "written": next((r["args"][7] for r in results if r["args"]), None)})
    for m in dr.judge(results):
        chk.mismatch(m["clause"], {"clause": m["clause"], "class": m["detail"].get("class"), "formatter": m["detail"].get("formatter")},
                     {"kind": "determinism", "mismatch": m}, props=m["props"])
    chk.assumptions += ["separate interpreters per (PYTHONHASHSEED, construction variant, formatter); `black missing` is a "
                        "shadowing package whose import fails; format-command = cat",
                        "20 values: sets / frozensets of totally ordered, mixed (not orderable) and partially ordered "
                        "(frozensets) elements, nested in dicts / lists / tuples, dicts built in different ways",
                        "%d values that are fixed into an existing snapshot (new dict entries appended / flushed in front of a "
                        "known key, sets replaced, list elements inserted)" % len(dr.FIXES)]
    return chk.finish(
        rule="TLC checks that the written order of set elements does not depend on the iteration order for every element "
             "class of spec/ISCodeGen.tla; %d values x 2 construction variants x %d hash seeds x 3 formatter configurations "
             "(and %d values fixed into an existing snapshot) are created in separate interpreters; per value and formatter all texts must be identical, across "
             "formatters the syntax tree must be identical; distinct = (value, formatter)" % (len(dr.VALUES), len(seeds), len(dr.FIXES)))
