"""Checks decided with the structural-assignment specification (spec/ISAlign.tla, ISAssign.tla, MC_Assign.tla):
C02 C10 C11 (and the structural clauses of C05/C08/C18) share the model, the emission and the replay."""
from __future__ import annotations

import concurrent.futures as cf

from .. import assign_replay, pool, tlc
from ..checklib import Check, MachineryError, overlap_kind

SHAPES = ["seq", "flat", "nest", "dict", "call", "pos"]
# (TStride of the model-checking run, TStride / Stride / keep_every of the emission) per tier
SIZES = {
    "quick": {"seq": (16, 40, 4, 1), "flat": (1, 2, 3, 4), "nest": (4, 10, 3, 3), "dict": (16, 60, 3, 2), "call": (8, 10, 3, 2), "pos": (1, 1, 1, 1), "inner": (8, 12, 3, 4)},
    "thorough": {"seq": (1, 4, 2, 1), "flat": (1, 1, 1, 1), "nest": (1, 2, 1, 1), "dict": (1, 8, 2, 1), "call": (1, 2, 1, 1), "pos": (1, 1, 1, 1), "inner": (1, 4, 2, 2)},
}
INVS = {"C02": ["C02"], "C10": ["C10"], "C11": ["C11"], "C05": ["C05"], "C08": ["C08"], "C09": ["C09"],
        "C18": ["C02", "C10"]}


def _cfg(shape, invs, overrides):
    text = (tlc.SPEC_DIR / ("Assign_%s.cfg" % shape)).read_text()
    out = [l for l in text.splitlines() if not l.startswith("INVARIANT") or l.split()[1] in invs]
    return tlc.derive_cfg("\n".join(out) + "\n", overrides)


def assign_check(pid: str, shapes=SHAPES, level="model_checking", case_filter=None, sessions=(0, 0)):
    chk = Check(pid, level)
    if chk.replay:
        return replay_file(chk)
    sizes = SIZES[chk.tier]
    for shape in shapes:
        ts_mc, ts, st, keep = sizes[shape]
        with cf.ThreadPoolExecutor(2) as ex:
            f_mc = ex.submit(tlc.run_tlc, "MC_Assign", "Assign_%s.cfg" % shape, workers=8, timeout=3000,
                             extra_files={"run.cfg": _cfg(shape, INVS[pid], {"Mode": "mc", "TStride": ts_mc,
                                                                             "Offset": chk.seed % ts_mc})})
            f_em = ex.submit(tlc.run_tlc, "MC_Assign", "Assign_%s.cfg" % shape, workers=8, timeout=3000,
                             extra_files={"run.cfg": _cfg(shape, ["Emit"], {"Mode": "emit", "TStride": ts, "Stride": st,
                                                                            "Offset": chk.seed % 7})})
        res = f_mc.result()
        chk.add_tlc(res, "mc Assign_%s (%s)" % (shape, ",".join(INVS[pid])))
        if not res.ok:
            chk.spec_violation(res, "mc Assign_" + shape)
        tlc.cleanup(res)
        res = f_em.result()
        chk.add_tlc(res, "emit Assign_%s" % shape)
        try:
            cases = assign_replay.load_cases(res.out_dir, seed=chk.seed, keep_every=keep)
        finally:
            tlc.cleanup(res)
        if case_filter:
            cases = [c for c in cases if case_filter(c)]
        if not cases:
            raise MachineryError("no cases emitted for shape " + shape)
        run_cases(chk, cases, shape, sessions=sessions[0 if chk.quick else 1] if shape in ("seq", "dict", "call") else 0)
    return chk


def sig_of(m, case):
    d = m["detail"] if isinstance(m["detail"], dict) else {}
    det = m["detail"]
    err = det[0] if isinstance(det, list) and det else None
    return {"clause": m["clause"], "A": m["A"], "term_kind": case["tm"]["t"], "value_kind": case["v"]["t"],
            "error": err, "overlap": overlap_kind(det), "nested": assign_replay.RA.has_tag(case["tm"], {"sn"}),
            "positional": bool(d.get("positional")) if "positional" in d else None,
            "pos_class": bool(d.get("pos_class")) if "positional" in d else None,
            "exp": d.get("exp") if m["clause"] == "cats" else None, "got": d.get("got") if m["clause"] == "cats" else None}


def run_cases(chk: Check, cases, shape, sessions=0):
    by_id = {c["id"]: c for c in cases}
    results = pool.parallel_map(assign_replay._worker, [(c, chk.seed) for c in pool.chunks(cases, 40)])
    if sessions:
        # a sample as real pytest sessions (`<approved>,report`: the plugin displays every pending category)
        from .. import session_driver
        session_driver.preload()
        cand = [c for c in cases if c["A"] and not assign_replay.RA.has_tag(c["tm"], {"sn"}) and len(c["exp_cats"]) > len(c["A"])] or cases
        sub = [dict(c, id=c["id"] + "@session") for c in cand[:: max(1, len(cand) // sessions)][:sessions]]
        by_id.update({c["id"]: c for c in sub})
        results += pool.parallel_map(assign_replay._worker, [(c, chk.seed, "session") for c in pool.chunks(sub, 4)])
    errors = 0
    drift = 0
    for chunk in results:
        for r in chunk:
            case = by_id[r["id"]]
            if "error" in r:
                errors += 1
                if errors <= 3:
                    print("driver error on %s:\n%s" % (r["id"], r["error"]))
                continue
            nontrivial = bool(case["exp_cats"])
            chk.count(1, shape + r["id"] if nontrivial else None)
            chk.validated(1)
            if len(chk.cov["samples"]) < 5 and nontrivial and case["h"] % 11 == 0 and case["A"]:
                chk.sample({"kind": "spec->code replay (structural)", "shape": shape, "term": case["tm"], "value": case["v"],
                            "approved": case["A"], "expected_term": case["exp_term"], "expected_categories": case["exp_cats"],
                            "concretisation": r["info"]})
            for m in r["mism"]:
                if m["clause"] == "drift":
                    drift += 1
                    continue
                chk.mismatch(m["clause"], sig_of(m, case),
                             {"kind": "assign-case", "case": case, "seed": chk.seed, "mismatch": m,
                              "module": r["text"], "module_after": r["new"]}, props=m["props"])
    chk.cov["transcription_drift"] = chk.cov.get("transcription_drift", 0) + drift
    if errors:
        raise MachineryError("%d replay jobs crashed in the harness" % errors)


def replay_file(chk: Check):
    import json
    data = json.loads(open(chk.replay).read())
    rp = data["replay"]
    if rp.get("kind") != "assign-case":
        print(json.dumps(rp, indent=1)[:4000])
        return 1
    mism, info, text, new_text = assign_replay.replay_case(rp["case"], rp["seed"])
    print(text)
    print("--- after the session (approved: %s)" % rp["case"]["A"])
    print(new_text)
    mine = [m for m in mism if chk.pid in m["props"]]
    for m in mine:
        print("MISMATCH", json.dumps(m)[:2000])
    print("reproduced" if mine else "not reproduced")
    return 1 if mine else 0
