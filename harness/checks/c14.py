"""C14 - each snapshot() call site has its own state; repeated evaluation aggregates."""
from .core import core_check
from .. import partial_replay, reeval_replay


def _partial(chk):
    # an independent witness site after comparisons that raise half way (spec/ISPartial.tla): nothing leaks
    if chk.quick:
        partial_replay.run(chk, k=2, max_cmp=3)
    else:
        partial_replay.run(chk, k=3, max_cmp=3, stride=16)
    # the same call evaluated several times with dynamic (Is) parts and parts that are mutated in place
    reeval_replay.run(chk, stride=16 if chk.quick else 8)


def _twin(run):
    # every third program together with a copy of its module in the same session (equal code objects, other file)
    if run["h"] % 3 == 0:
        run["twin"] = True
        run["id"] += "@twin"


def run():
    chk = core_check("C14", annotate=_twin, cfgs=("B", "A"), quick_keep=16, thorough_keep=8, keep_b=(3, 2), extra=_partial, traces=(3000, 20000))
    if isinstance(chk, int):
        return chk
    chk.assumptions += ["placements: own function, all calls on one line (lambdas), one function holding all calls, "
                        "closures, helper receiving the snapshot, module level shared by the tests"]
    return chk.finish(
        rule="TLC checks on two-site / two-test programs that the outcome of a site equals the outcome of the "
             "projection of the program on that site (Independence) and enumerates all interleavings of evaluations; "
             "each run is executed with a seeded placement of the calls; per-site categories and written arguments "
             "are compared with the per-site fold of the model; re-evaluation with a changed hand-written argument "
             "must raise UsageError and record nothing; the terminal states of ISPartial (one site compared several times "
             "with values whose entries may raise) are replayed with an independent witness site whose create must "
             "stay pending; non-trivial = something pending or a failing test")
