"""C04 - nothing is written without approval; exactly the approved categories apply."""
from .. import config_replay, pool, session_driver, tlc
from ..checklib import Check, MachineryError


def run():
    chk = Check("C04", "model_checking")
    if chk.replay:
        return replay(chk)
    res = tlc.run_tlc("MC_Config", "Config.cfg", overrides={"Mode": "mc", "Small": chk.quick}, timeout=3000)
    chk.add_tlc(res, "mc Config (C04exact, C04quiet, C04review; Small=%s)" % chk.quick)
    if not res.ok:
        chk.spec_violation(res, "mc Config")
    tlc.cleanup(res)
    stride = 2200 if chk.quick else 150
    res = tlc.run_tlc("MC_Config", "Config.cfg", overrides={"Mode": "emit", "Stride": stride, "Offset": chk.seed % stride}, timeout=600)
    chk.add_tlc(res, "emit Config")
    try:
        cases = config_replay.load_cases(res.out_dir, chk.seed)
    finally:
        tlc.cleanup(res)
    if not cases:
        raise MachineryError("no configurations emitted")
    session_driver.preload()
    results = pool.parallel_map(config_replay._worker, [(c, chk.seed) for c in pool.chunks(cases, 4)])
    by_id = {c["id"]: c for c in cases}
    errors = 0
    for out in results:
        for r in out:
            c = by_id[r["id"]]
            if "error" in r:
                errors += 1
                print("driver error:", r["error"])
                continue
            nontrivial = bool(c["applied"]) or bool(c["error"]) or not c["active"] or bool(c["asked"])
            chk.count(1, r["id"] if nontrivial else None)
            chk.validated(1)
            if len(chk.cov["samples"]) < 5 and c["h"] % 9 == 0:
                chk.sample({"configuration": {k: c[k] for k in ("cli", "env", "pp", "pptui", "tty", "ci", "pycharm", "xdist", "skipupd", "yes")},
                            "expected": {k: c[k] for k in ("error", "active", "U", "applied", "asked", "approved")},
                            "real_session": {k: r["info"].get(k) for k in ("args", "env", "stdin", "pyproject", "applied", "rc")}})
            for m in r["mism"]:
                sig = {"clause": m["clause"], "xdist": c["xdist"], "cli": c["cli"]["on"], "env": c["env"]["on"],
                       "review": "review" in (c["cli"]["f"] if c["cli"]["on"] else [])}
                chk.mismatch(m["clause"], sig, {"kind": "config", "case": c, "seed": chk.seed, "mismatch": m, "session": r["info"]},
                             props=m["props"])
    if errors:
        raise MachineryError("%d session jobs crashed" % errors)
    chk.assumptions += ["one project with a pending change in each category (each in its own test) and an xfail-marked "
                        "test with a pending fix; real pytest sessions of the plugin in a forked child; a terminal is "
                        "simulated with FORCE_COLOR as the repository's own tests do; review answers over stdin"]
    return chk.finish(
        rule="TLC checks Applied = UserApproved /\\ pending for every configuration (flag sources x modes x environment "
             "x xdist x review answers; controller and worker processes) - 2.0 M configurations thorough, 179 k quick - "
             "and emits a stride sample; each emitted configuration is set up for real and run as a pytest session; "
             "applied categories are read off the files, inertness by hashing the directory; non-trivial = something "
             "applied, an error, a disabled session or a review question")


def replay(chk):
    import json
    d = json.loads(open(chk.replay).read())["replay"]
    session_driver.preload()
    mism, info = config_replay.run_case(d["case"], d["seed"])
    print(json.dumps({"mismatches": mism, "session": {k: v for k, v in info.items() if k != "stdout"}}, indent=1)[:4000])
    print("reproduced" if mism else "not reproduced")
    return 1 if mism else 0
