"""C03 - rewriting touches only the arguments of snapshot() calls."""
import random

from .core import core_check
from .. import seqedit_replay
from ..render_core import LAYOUTS


def _seqedit(chk):
    # element edits of displays / calls (spec/ISSeqEdit.tla) replayed into the real apply_all
    seqedit_replay.run(chk, stride=4 if chk.quick else 1)


def _layout(run):
    rng = random.Random(run["h"])
    k = rng.choice([0, 1, 1, 2, 2, 3])
    attrs = sorted(rng.sample(LAYOUTS, k))
    attrs = sorted(set(attrs))
    if "crlf" in attrs and "cr" in attrs:
        attrs.remove("cr")
    if "latin1" in attrs and "cr" in attrs:
        # (old-Mac line ends together with an encoding declaration: the declaration line never ends for the
        #  line-based readers of the standard library; not exercised, see DESIGN section 9)
        attrs.remove("cr")
    run["layout"] = attrs
    run["id"] += "@" + "+".join(attrs)


def run():
    chk = core_check("C03", cfgs=("B", "A"), quick_keep=12, thorough_keep=4, annotate=_layout, extra=_seqedit,
                     # real sessions (the plugin's own session end) of two-site programs in which something is pending
                     # that is NOT approved: the snapshot that is not being changed must keep its text
                     sessions_quick=240, sessions_thorough=2400, keep_b=(3, 1),
                     session_filter=lambda r: bool(r["exp"]["F"]) and any(set(p) - set(r["exp"]["F"]) for p in r["exp"]["pending"]))
    if isinstance(chk, int):
        return chk
    return chk.finish(
        rule="every session case of the per-site model (all operations, hand-written and canonical entries, every "
             "approved set) is executed; the rewritten module must parse, keep its snapshot() calls, and be "
             "byte-identical outside the call parentheses (span location by an independent tokenizer pass); every "
             "(container source, edit) case of ISSeqEdit is handed to the real apply_all: valid Python, exactly the "
             "expected elements, kept elements verbatim, nothing outside the display")
