"""C03 - rewriting touches only the arguments of snapshot() calls."""
from .core import core_check


def run():
    chk = core_check("C03", quick_keep=12, thorough_keep=4)
    if isinstance(chk, int):
        return chk
    return chk.finish(
        rule="every session case of the per-site model (all operations, hand-written and canonical entries, every "
             "approved set) is executed; the rewritten module must parse, keep its snapshot() calls, and be "
             "byte-identical outside the call parentheses (span location by an independent tokenizer pass)")
