"""C03 - rewriting touches only the arguments of snapshot() calls."""
import random

from .core import core_check
from ..render_core import LAYOUTS


def _layout(run):
    rng = random.Random(run["h"])
    k = rng.choice([0, 1, 1, 2, 2, 3])
    attrs = sorted(rng.sample(LAYOUTS, k))
    if "crlf" in attrs and "cr" in attrs:
        attrs.remove("cr")
    run["layout"] = attrs
    run["id"] += "@" + "+".join(attrs)


def run():
    chk = core_check("C03", quick_keep=12, thorough_keep=4, annotate=_layout)
    if isinstance(chk, int):
        return chk
    return chk.finish(
        rule="every session case of the per-site model (all operations, hand-written and canonical entries, every "
             "approved set) is executed; the rewritten module must parse, keep its snapshot() calls, and be "
             "byte-identical outside the call parentheses (span location by an independent tokenizer pass)")
