"""C19 - the public testing helpers reproduce what a real session does."""
import random

from .. import core_replay, drivers_replay as dr, pool, render_core, session_driver, tlc
from ..checklib import Check, MachineryError
from .core import cfg_with_invariants

SPECIALS = [
    ("hasrepr", {"test_case.py": '''from inline_snapshot import snapshot


class Thing:
    def __repr__(self):
        return "<Thing at home>"

    def __eq__(self, other):
        if not isinstance(other, Thing):
            return NotImplemented
        return True


def test_a():
    assert Thing() == snapshot()
    assert [Thing(), 1] == snapshot([2])
'''}, None),
    ("two-files-failing-raising", {"test_a.py": '''from inline_snapshot import snapshot


def test_a():
    assert "a" == snapshot()
    raise ValueError("boom")


def test_b():
    assert 3 <= snapshot(2)
''', "test_b.py": '''from inline_snapshot import snapshot


def test_c():
    assert {"k": [1, 2]} == snapshot({"k": [1], "z": 0})
    assert 1 == 2
'''}, None),
    ("two-files-hasrepr-external", {"test_a.py": '''from inline_snapshot import snapshot, outsource


class Thing:
    def __repr__(self):
        return "<Thing at home>"

    def __eq__(self, other):
        if not isinstance(other, Thing):
            return NotImplemented
        return True


def test_a():
    assert Thing() == snapshot()
    assert outsource("some text") == snapshot()
''', "test_b.py": '''from inline_snapshot import snapshot


def test_b():
    assert [1, 2] == snapshot()
    assert 5 == snapshot(4)
''', "test_c.py": '''from inline_snapshot import snapshot, outsource


def test_c():
    assert outsource(b"bytes") == snapshot()
'''}, None),
    ("black-line-length", {"test_case.py": '''from inline_snapshot import snapshot


def test_a():
    assert ["aaaaaaaaaa", "bbbbbbbbbb", "cccccccccc", "dddddddddd", "eeeeeeeeee"] == snapshot()
'''}, "[tool.black]\nline-length = 50\n"),
    ("black-skip-string-normalization", {"test_case.py": '''from inline_snapshot import snapshot


def test_a():
    assert ['x', 'y'] == snapshot()
'''}, "[tool.black]\nskip-string-normalization = true\n"),
]


def _case_worker(args):
    cases, seed = args
    out = []
    for c in cases:
        try:
            if "files" in c:
                files, pp, F = c["files"], c["pyproject"], c["F"]
            elif "pair" in c:
                # a project of several files: independent programs of the model, one file each, one approved set
                files = {}
                for k, r in enumerate(c["pair"]):
                    rng, beta = core_replay.prepare(r, seed + k)
                    files["test_%s.py" % "abc"[k]] = render_core.render(r["ops"], r["srcs"], r["prog"], beta, bool(r["exp"].get("imp")), rng)
                pp, F = None, [core_replay.CATS[x] for x in c["pair"][0]["exp"]["F"]]
            else:
                rng, beta = core_replay.prepare(c, seed)
                text = render_core.render(c["ops"], c["srcs"], c["prog"], beta, bool(c["exp"].get("imp")), rng)
                files, pp, F = {"test_case.py": text}, None, [core_replay.CATS[x] for x in c["exp"]["F"]]
            res = dr.run_project(files, F, seed, pp)
            mism = dr.compare(res)
            out.append({"id": c["id"], "mism": mism, "F": F, "files": files if mism else None,
                        "summary": {k: {"categories": v["categories"], "changed": sorted((v["changed"] or {}).keys()), "error": v["error"]}
                                    for k, v in res.items()}})
        except Exception:  # noqa
            import traceback
            out.append({"id": c["id"], "error": traceback.format_exc()[-1500:]})
    return out


def run():
    chk = Check("C19", "model_checking")
    if chk.replay:
        return replay(chk)
    name, text = cfg_with_invariants("Core_A_mc.cfg", ["C19"])
    stride = 8 if chk.quick else 1
    res = tlc.run_tlc("MC_Core", "Core_A_mc.cfg", workers=8, timeout=3000,
                      extra_files={"run.cfg": tlc.derive_cfg(text, {"Stride": stride, "Offset": chk.seed % stride, "HostileOK": True})})
    chk.add_tlc(res, "mc Core_A (C19 DriversAgree)")
    if not res.ok:
        chk.spec_violation(res, "mc Core_A")
    tlc.cleanup(res)
    cases = []
    for cfg, st in (("A", 64 if chk.quick else 8), ("B", 4096 if chk.quick else 512)):
        res = tlc.run_tlc("MC_Core", "Core_%s_emit.cfg" % cfg, workers=8, timeout=1500,
                          overrides={"Stride": st, "Offset": chk.seed % st, "HostileOK": cfg == "A"})
        chk.add_tlc(res, "emit Core_" + cfg)
        try:
            runs = core_replay.load_runs(res.out_dir, seed=chk.seed, keep_every=1)
        finally:
            tlc.cleanup(res)
        n = (90 if cfg == "A" else 50) if chk.quick else (2000 if cfg == "A" else 800)
        cases += [dict(r, id=cfg + r["id"]) for r in runs[:: max(1, len(runs) // n)][:n]]
        if cfg == "A":
            pool_a = [dict(r, id=cfg + r["id"]) for r in runs]
    # multi-file projects: two or three programs whose pending categories differ, approved together
    byF = {}
    for r in pool_a:
        if len(r["exp"]["F"]) >= 2 and any(r["exp"]["pending"]):
            byF.setdefault(tuple(r["exp"]["F"]), []).append(r)
    prng = random.Random(chk.seed + 19)
    npairs = 0
    for F, rs in sorted(byF.items()):
        prng.shuffle(rs)
        while len(rs) >= 2 and npairs < (60 if chk.quick else 1500):
            k = 3 if len(rs) >= 3 and prng.random() < 0.3 else 2
            grp, rs = rs[:k], rs[k:]
            if len({tuple(tuple(p) for p in g["exp"]["pending"]) for g in grp}) < 2:
                continue                    # the files should differ in what is pending
            cases.append({"id": "pair:" + "|".join(g["id"] for g in grp), "pair": grp})
            npairs += 1
    rng = random.Random(chk.seed)
    allF = [[], ["create"], ["fix"], ["create", "fix"], ["update"], ["trim"], ["create", "fix", "trim", "update"]]
    for name, files, pp in SPECIALS:
        for F in (allF if not chk.quick else rng.sample(allF, 3) + [["create", "fix"]]):
            cases.append({"id": "special:%s:%s" % (name, "+".join(F)), "files": files, "pyproject": pp, "F": F, "special": name})
    if not cases:
        raise MachineryError("no projects")
    session_driver.preload()
    results = pool.parallel_map(_case_worker, [(c, chk.seed) for c in pool.chunks(cases, 3)])
    by_id = {c["id"]: c for c in cases}
    errors = 0
    for out in results:
        for r in out:
            if "error" in r:
                errors += 1
                print("driver error:", r["error"])
                continue
            c = by_id[r["id"]]
            nontrivial = any(v["changed"] or v["categories"] for v in r["summary"].values())
            chk.count(1, r["id"] if nontrivial else None)
            chk.validated(1)
            if len(chk.cov["samples"]) < 4 and nontrivial and len(r["id"]) % 3 == 0:
                chk.sample({"project": r["id"], "approved": r["F"], "per_driver": r["summary"]})
            for m in r["mism"]:
                chk.mismatch(m["clause"], {"clause": m["clause"], "driver": m["detail"].get("driver"), "special": c.get("special")},
                             {"kind": "drivers", "case": {k: v for k, v in c.items() if k not in ("exp", "pair")}, "F": r["F"], "files": r["files"], "mismatch": m,
                              "summary": r["summary"]}, props=m["props"])
    if errors:
        raise MachineryError("%d driver jobs crashed" % errors)
    chk.assumptions += ["projects without externals: the programs of the per-site model (incl. raising / failing tests) "
                        "plus hand-written projects with HasRepr values, several files and [tool.black] options, and projects of two "
                        "or three generated files whose pending categories differ",
                        "the real session and run_pytest are given `report` in addition, so that every pending category is "
                        "shown; categories are read from the section titles of the report"]
    return chk.finish(
        rule="TLC checks DriversAgree on the session model (the drivers are instances of the same session; deviations are "
             "named in spec/ISDrivers.tla); emitted programs x approved sets are run through Example.run_inline, "
             "Example.run_pytest, a real session and the harness' own driver; changed files (text) and pending categories "
             "are compared pairwise with the real session; non-trivial = something changed or is pending")


def replay(chk):
    import json
    d = json.loads(open(chk.replay).read())["replay"]
    session_driver.preload()
    c = d["case"]
    if d.get("files"):
        res = dr.run_project(d["files"], d["F"], 0, c.get("pyproject"))
    else:
        print("no concrete project stored")
        return 1
    mism = [m for m in dr.compare(res) if m["props"]]
    print(json.dumps(mism, indent=1)[:3000])
    print("reproduced" if mism else "not reproduced")
    return 1 if mism else 0
