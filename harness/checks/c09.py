"""C09 - the order in which categories are approved does not matter."""
from .core import chain_check


def _structural(chk):
    """containers and constructor calls: fix and update pending on one `==` snapshot"""
    from . import assign
    from .. import assign_replay, pool, tlc
    from ..checklib import MachineryError
    sizes = assign.SIZES[chk.tier]
    for shape in ("call", "pos", "dict", "seq"):
        ts_mc, ts, st, keep = sizes[shape]
        res = tlc.run_tlc("MC_Assign", "Assign_%s.cfg" % shape, workers=16, timeout=3000,
                          extra_files={"run.cfg": assign._cfg(shape, ["C09"], {"Mode": "mc", "TStride": ts_mc * (4 if shape == "seq" else 1),
                                                                               "Offset": chk.seed % ts_mc})})
        chk.add_tlc(res, "mc Assign_%s (C09: fix;update = update;fix = fix,update)" % shape)
        if not res.ok:
            chk.spec_violation(res, "mc Assign_" + shape)
        tlc.cleanup(res)
        res = tlc.run_tlc("MC_Assign", "Assign_%s.cfg" % shape, workers=16, timeout=3000,
                          extra_files={"run.cfg": assign._cfg(shape, ["Emit"], {"Mode": "emit", "TStride": 2 if shape == "call" and chk.quick else ts, "Stride": st, "Offset": chk.seed % 7})})
        chk.add_tlc(res, "emit Assign_%s" % shape)
        try:
            cases = [c for c in assign_replay.load_cases(res.out_dir, seed=chk.seed, keep_every=1)
                     if c["A"] == ["fix", "update"] and {"fix", "update"} <= set(c["exp_cats"]) and c.get("eqnew")]
        finally:
            tlc.cleanup(res)
        cases = cases[: 4000 if chk.quick else 40000]
        by_id = {c["id"]: c for c in cases}
        errors = 0
        for out in pool.parallel_map(assign_replay._worker_orders, [(c, chk.seed) for c in pool.chunks(cases, 20)]):
            for r in out:
                if "error" in r:
                    errors += 1
                    print("driver error:", r["error"])
                    continue
                chk.count(1, "orders|" + shape + r["id"])
                chk.validated(1)
                for m in r["mism"]:
                    chk.mismatch(m["clause"], {"clause": m["clause"], "shape": shape, "asserts": False, "spec_confluent": True, "ops": [shape]},
                                 {"kind": "assign-orders", "case": by_id[r["id"]], "seed": chk.seed, "mismatch": m,
                                  "module": r["text"]}, props=m["props"])
        if errors:
            raise MachineryError("%d replay jobs crashed" % errors)


def run():
    chk = chain_check("C09", "chain9")
    if isinstance(chk, int):
        return chk
    _structural(chk)
    chk.assumptions += ["programs with at least two pending categories; one pending category is approved per session "
                        "until nothing is pending (fuel 6)"]
    return chk.finish(
        rule="TLC enumerates, for every program with >=2 pending categories, every order of approving one pending "
             "category per session plus the all-at-once history; all are replayed as chained real runs and the final "
             "files compared as syntax trees; each program counts once; at the structural level (lists, dicts, "
             "constructor calls) TLC checks fix;update = update;fix = fix,update for every (term, value) and the three "
             "histories are replayed for the cases where both are pending")
