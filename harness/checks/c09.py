"""C09 - the order in which categories are approved does not matter."""
from .core import chain_check


def run():
    chk = chain_check("C09", "chain9")
    if isinstance(chk, int):
        return chk
    chk.assumptions += ["programs with at least two pending categories; one pending category is approved per session "
                        "until nothing is pending (fuel 6)"]
    return chk.finish(
        rule="TLC enumerates, for every program with >=2 pending categories, every order of approving one pending "
             "category per session plus the all-at-once history; all are replayed as chained real runs and the final "
             "files compared as syntax trees; each program counts once")
