"""C02 - approving create and fix repairs every reached snapshot in a single run."""
from .assign import assign_check


def run():
    chk = assign_check("C02")
    if isinstance(chk, int):
        return chk
    chk.assumptions += ["previous text: list/tuple/dict displays, nested lists, dataclass/attrs/namedtuple/pydantic "
                        "calls with positional and keyword arguments, hand-written leaves, Is(), f-strings, starred "
                        "containers, hand-written container expressions; one-line and multi-line layouts",
                        "several snapshots per test after a failing one: the two-site programs of C07/C14 "
                        "(clause `res` under flags)"]
    return chk.finish(
        rule="TLC checks ManagedEq(Assign(term, value, {create,fix}), value) for every (term, value) of four bounded "
             "shape universes; emitted cases are executed (assert value == snapshot(term)) and the rewritten argument is "
             "abstracted back: every managed part must equal the value, and the test must pass with inline-snapshot "
             "disabled iff no user-controlled part disagrees; non-trivial = at least one pending category")
