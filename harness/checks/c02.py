"""C02 - approving create and fix repairs every reached snapshot in a single run."""
from .assign import assign_check


def _nested(chk):
    """nested snapshot() calls (call sites of their own inside an outer == snapshot)"""
    from . import assign
    from .. import assign_replay, pool, tlc
    from ..checklib import MachineryError, overlap_kind
    ts_mc, ts, st, keep = assign.SIZES[chk.tier]["inner"]
    res = tlc.run_tlc("MC_Assign", "Assign_inner.cfg", workers=16, timeout=3000,
                      extra_files={"run.cfg": assign._cfg("inner", ["Emit"], {"Mode": "emit", "TStride": ts, "Stride": st, "Offset": chk.seed % 7})})
    chk.add_tlc(res, "emit Assign_inner (nested snapshot calls)")
    try:
        cases = [c for c in assign_replay.load_cases(res.out_dir, seed=chk.seed, keep_every=1) if c["A"] == ["fix", "update"]]
    finally:
        tlc.cleanup(res)
    by_id = {c["id"]: c for c in cases}
    errors = 0
    for out in pool.parallel_map(assign_replay._worker_nested, [(c, chk.seed) for c in pool.chunks(cases, 30)]):
        for r in out:
            if "error" in r:
                errors += 1
                print("driver error:", r["error"])
                continue
            chk.count(1, "nested|" + r["id"])
            chk.validated(1)
            for m in r["mism"]:
                det = m["detail"]
                chk.mismatch(m["clause"], {"clause": m["clause"], "shape": "inner", "error": det[0] if isinstance(det, list) and det else None,
                                           "overlap": overlap_kind(det), "nested": True},
                             {"kind": "assign-nested", "case": by_id[r["id"]], "seed": chk.seed, "mismatch": m,
                              "module": r["text"], "module_after": r["new"]}, props=m["props"])
    if errors:
        raise MachineryError("%d replay jobs crashed" % errors)


def run():
    chk = assign_check("C02")
    if isinstance(chk, int):
        return chk
    _nested(chk)
    chk.assumptions += ["previous text: list/tuple/dict displays, nested lists, dataclass/attrs/namedtuple/pydantic "
                        "calls with positional and keyword arguments, hand-written leaves, Is(), f-strings, starred "
                        "containers, hand-written container expressions; one-line and multi-line layouts",
                        "several snapshots per test after a failing one: the two-site programs of C07/C14 "
                        "(clause `res` under flags)"]
    return chk.finish(
        rule="TLC checks ManagedEq(Assign(term, value, {create,fix}), value) for every (term, value) of four bounded "
             "shape universes; emitted cases are executed (assert value == snapshot(term)) and the rewritten argument is "
             "abstracted back: every managed part must equal the value, and the test must pass with inline-snapshot "
             "disabled iff no user-controlled part disagrees; nested snapshot() calls: after one run with create and "
             "fix the module (with a later empty snapshot in the same test) passes when disabled; non-trivial = at least one pending category")
