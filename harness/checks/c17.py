"""C17 - what is recorded is the value at comparison time."""
from .core import core_check


def _mut(run):
    run["mutate"] = True
    run["id"] += "@mut"


def run():
    chk = core_check("C17", quick_keep=12, thorough_keep=4, annotate=_mut, overrides={"HostileOK": True},
                     # (sites that are evaluated but never operated are left out: for container values the tool reports
                     #  no `update` for them (UndecidedValue._get_changes walks the items of a container and finds no node for a
                     #  hand-written expression that is not a display) - the carriers make every value a container; the same
                     #  holds for dict children that are only accessed, `dget`)
                     run_filter=lambda r: "none" not in r["ops"] and bool(r["exp"]["F"])
                     and not any(s["op"] in ("raise", "chg", "dget") for t in r["prog"] for s in t),
                     prop_map=lambda m: ["C17"] if m["clause"] in ("newsrc", "pending", "res", "res-reeval", "failed") else m["props"])
    if isinstance(chk, int):
        return chk
    chk.assumptions += ["the compared values live in ONE mutable object per test (list / dict / nested list) that is "
                        "rewritten in place before every comparison and mutated again right after it (list, dict, nested list, a "
                        "tuple holding a mutable list)",
                        "values whose deep copy is unequal (identity comparison) are compared with `==` and `in`: the usage "
                        "error must be raised and nothing recorded"]
    return chk.finish(
        rule="the per-site model stores values, so a later mutation of the compared object cannot alter what is "
             "recorded (heap-free by construction); every emitted run with at least one approved category is executed "
             "with mutable carriers and in-place mutation after each comparison, and results, categories and the "
             "written argument are compared with the model")
