"""C17 - what is recorded is the value at comparison time."""
from .core import core_check


def _mut(run):
    run["mutate"] = True
    run["id"] += "@mut"


def run():
    chk = core_check("C17", quick_keep=12, thorough_keep=4, annotate=_mut,
                     run_filter=lambda r: "none" not in r["ops"] and bool(r["exp"]["F"]))
    if isinstance(chk, int):
        return chk
    chk.assumptions += ["the compared values live in ONE mutable object per test (list / dict / nested list) that is "
                        "rewritten in place before every comparison and mutated again right after it"]
    return chk.finish(
        rule="the per-site model stores values, so a later mutation of the compared object cannot alter what is "
             "recorded (heap-free by construction); every emitted run with at least one approved category is executed "
             "with mutable carriers and in-place mutation after each comparison, and results, categories and the "
             "written argument are compared with the model")
