"""C12 - every string is written as a literal that reads back identically."""
import random

from .. import pool, strlit, tlc
from ..checklib import Check, MachineryError


def random_strings(rng, n):
    out = []
    alphabet = [r for reps in strlit.REPS.values() for r in reps]
    for i in range(n):
        L = rng.choice([1, 2, 5, 9, 17, 40])
        mode = rng.random()
        if mode < 0.5:
            s = "".join(rng.choice(alphabet) for _ in range(L))
        elif mode < 0.8:
            s = "".join(chr(rng.choice([rng.randrange(0, 0x250), rng.randrange(0x2000, 0x2100), rng.randrange(0xD7F0, 0xE010),
                                        rng.randrange(0xFFF0, 0x10010), rng.randrange(0x1F600, 0x1F650), rng.randrange(0xE0000, 0xE0080)]))
                        for _ in range(L))
        else:
            lines = ["".join(rng.choice(alphabet[:30]) for _ in range(rng.randrange(0, 8))) for _ in range(rng.randrange(1, 5))]
            s = rng.choice(["\n", "\r\n", " \n", "\n\n"]).join(lines) + rng.choice(["", "\n", " ", "\\"])
        out.append({"value": s, "h": i, "s": None})
    return out


def run():
    chk = Check("C12", "exploration")
    if chk.replay:
        return replay(chk)
    n_mc, n_emit, keep = (4, 4, 1) if chk.quick else (6, 5, 2)
    res = tlc.run_tlc("MC_StrLit", "StrLit.cfg", overrides={"N": n_mc, "Mode": "mc"}, timeout=3000)
    chk.add_tlc(res, "mc StrLit N=%d (RoundTrip, TripleIffMultiline)" % n_mc)
    if not res.ok:
        chk.spec_violation(res, "mc StrLit")
    tlc.cleanup(res)
    res = tlc.run_tlc("MC_StrLit", "StrLit.cfg", overrides={"N": n_emit, "Mode": "emit"}, timeout=3000)
    chk.add_tlc(res, "emit StrLit N=%d" % n_emit)
    try:
        cases = strlit.load_cases(res.out_dir, chk.seed, keep)
    finally:
        tlc.cleanup(res)
    # longer strings over the classes that decide the quoting (both triple-quote kinds in one value)
    nq = 8 if chk.quick else 9
    res = tlc.run_tlc("MC_StrLit", "StrLit_quotes.cfg", overrides={"N": nq, "Mode": "mc"}, timeout=3000)
    chk.add_tlc(res, "mc StrLit_quotes N=%d over {nl, sq, dq, a} (RoundTrip, TripleIffMultiline)" % nq)
    if not res.ok:
        chk.spec_violation(res, "mc StrLit_quotes")
    tlc.cleanup(res)
    res = tlc.run_tlc("MC_StrLit", "StrLit_quotes.cfg", overrides={"N": nq, "Mode": "emit", "Stride": 16 if chk.quick else 8,
                                                                   "Offset": chk.seed % 8}, timeout=3000)
    chk.add_tlc(res, "emit StrLit_quotes N=%d" % nq)
    try:
        cases += strlit.load_cases(res.out_dir, chk.seed, 1)
    finally:
        tlc.cleanup(res)
    if not cases:
        raise MachineryError("no strings emitted")
    rng = random.Random(chk.seed)
    jobs = []
    # exhaustive small strings (length <= 2) in every context with black; the sample in seeded contexts
    small = [c for c in strlit.load_cases_all_small()] if hasattr(strlit, "load_cases_all_small") else []
    for b in pool.chunks(cases, 16):
        jobs.append((b, chk.seed, "black"))
    for b in pool.chunks(cases[:: 6], 16):
        jobs.append((b, chk.seed + 1, "none"))
    for b in pool.chunks(cases[:: 12], 16):
        jobs.append((b, chk.seed + 2, "cmd"))
    # bytes: the same abstract strings read as bytes (no triple-quoted form for bytes)
    for b in pool.chunks([dict(c, bytes=True, triple=None) for c in cases[:: 5]], 16):
        for c in b:
            c.pop("triple")
        jobs.append((b, chk.seed + 3, "black"))
    # beyond the bounds: random strings over the full Unicode range, length <= 40
    rnd = random_strings(rng, 600 if chk.quick else 12000)
    for b in pool.chunks(rnd, 16):
        jobs.append((b, chk.seed + 4, rng.choice(["black", "black", "none", "cmd"])))
    results = pool.parallel_map(strlit.run_batch, jobs)
    errors = 0
    for job, out in zip(jobs, results):
        for r in out:
            if "error" in r:
                errors += 1
                print("driver error:", r["error"])
                continue
            chk.count(1, r.get("value"))
            for m in r["mism"]:
                chk.mismatch(m["clause"], {"clause": m["clause"], "ctx": m["ctx"], "fmt": m["fmt"]},
                             {"kind": "string", "value": m["value"], "ctx": m["ctx"], "fmt": m["fmt"], "enc": m.get("enc"),
                              "path": m.get("path"), "detail": m["detail"]},
                             props=m["props"])
            if len(chk.cov["samples"]) < 6 and r.get("value") and len(r["value"]) > 5 and (len(chk.cov["samples"]) * 997 + len(r["value"])) % 3 == 0:
                chk.sample({"value": r["value"], "context": r.get("ctx"), "formatter": job[2]})
    if errors:
        raise MachineryError("%d batches crashed" % errors)
    chk.assumptions += ["representatives per character class are sampled (two to fifteen per class, incl. lone "
                        "surrogates, NEL, LS, form feed, BOM); the formatter is the black of this sandbox, "
                        "`black missing` is simulated by making its import fail, format-command = `cat`"]
    return chk.finish(
        rule="TLC proves WellFormed(Encode(s)) /\\ Lex(Encode(s)) = s for ALL strings up to length N over 11 character "
             "classes (N = 4 quick, 6 thorough) and up to length 8 / 9 over the four classes that decide the quoting; every emitted abstract string (sampled 1/%d) is concretised, created "
             "through the real tool in a seeded context (top level, list, dict value/key, tuple, `in`, snapshot()[k], "
             "nested) and read back with ast.literal_eval; plus the same as bytes and seeded random strings up to "
             "length 40 over all planes; distinct = distinct concrete values, every one is non-trivial" % keep)


def replay(chk):
    import json
    d = json.loads(open(chk.replay).read())["replay"]
    v = eval(d["value"])
    out = strlit.run_batch(([{"value": v, "ctx": d["ctx"], "h": 0, "s": None, "enc": d.get("enc"), "path": d.get("path")}], 0, d["fmt"]))
    print(json.dumps(out, indent=1)[:3000])
    bad = any(r.get("mism") for r in out)
    print("reproduced" if bad else "not reproduced")
    return 1 if bad else 0
