"""C07 - a wrong or missing snapshot never yields a green run."""
from .core import core_check


def run():
    chk = core_check("C07", cfgs=("A", "B"), quick_keep=24, thorough_keep=6, sessions_quick=480, sessions_thorough=2500, keep_b=(4, 1), traces=(3000, 20000))
    if isinstance(chk, int):
        return chk
    chk.assumptions += ["snapshots executed inside test functions, copyable values, arguments that do not change",
                        "in-process runs observe the counters the plugin's fixture turns into a failure; the sampled "
                        "real sessions observe pytest's own per-test outcome and exit status"]
    return chk.finish(
        rule="TLC enumerates (operation, previous source, program, approved set) for one site / one test and for two sites "
             "shared by two tests; each run is executed in-process "
             "(counters/exception per test) and a stride sample as a real pytest session of the plugin (test outcome, "
             "exit status); non-trivial = the run has a failing test, a pending category or a TypeError")
