"""C05 - each category means what the documentation says."""
from .core import core_check


def run():
    chk = core_check("C05", cfgs=("A", "B"), quick_keep=12, thorough_keep=4)
    if isinstance(chk, int):
        return chk
    chk.assumptions += ["snapshots without user-controlled parts; leaf values (structured values: C02/C11)"]
    return chk.finish(
        rule="TLC checks the category algebra (fix iff a comparison fails, fix repairs, create only fills, trim is "
             "tightest and keeps what held, update keeps the value) on every (operation, previous source, program, "
             "approved set) of the bounded model; every emitted run is executed and the categories reported per call "
             "site and the argument written back are compared with the model (value and hand-written/regenerated "
             "text per entry); non-trivial = something is pending or a test fails")
