"""C05 - each category means what the documentation says."""
from .core import core_check


def _structural(chk):
    """the structural level (lists, dicts, constructor calls): categories of `==` against a container"""
    from . import assign
    from .. import assign_replay, tlc
    sizes = assign.SIZES[chk.tier]
    for shape in ("call", "seq", "pos"):
        ts_mc, ts, st, keep = sizes[shape]
        res = tlc.run_tlc("MC_Assign", "Assign_%s.cfg" % shape, workers=16, timeout=3000,
                          extra_files={"run.cfg": assign._cfg(shape, ["C05"], {"Mode": "mc", "TStride": ts_mc, "Offset": chk.seed % ts_mc})})
        chk.add_tlc(res, "mc Assign_%s (C05)" % shape)
        if not res.ok:
            chk.spec_violation(res, "mc Assign_" + shape)
        tlc.cleanup(res)
        res = tlc.run_tlc("MC_Assign", "Assign_%s.cfg" % shape, workers=16, timeout=3000,
                          extra_files={"run.cfg": assign._cfg(shape, ["Emit"], {"Mode": "emit", "TStride": ts * 2, "Stride": st, "Offset": chk.seed % 7})})
        chk.add_tlc(res, "emit Assign_%s" % shape)
        try:
            cases = assign_replay.load_cases(res.out_dir, seed=chk.seed, keep_every=keep)
        finally:
            tlc.cleanup(res)
        assign.run_cases(chk, cases, shape)


def run():
    chk = core_check("C05", cfgs=("A", "B"), quick_keep=12, thorough_keep=4, extra=_structural, traces=(3000, 20000))
    if isinstance(chk, int):
        return chk
    chk.assumptions += ["snapshots without user-controlled parts; leaf values (structured values: C02/C11)"]
    return chk.finish(
        rule="TLC checks the category algebra (fix iff a comparison fails, fix repairs, create only fills, trim is "
             "tightest and keeps what held, update keeps the value) on every (operation, previous source, program, "
             "approved set) of the bounded model; every emitted run is executed and the categories reported per call "
             "site and the argument written back are compared with the model (value and hand-written/regenerated "
             "text per entry); non-trivial = something is pending or a test fails")
