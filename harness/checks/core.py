"""Checks decided with the per-site core specification (spec/ISCore.tla, spec/MC_Core.tla):
C05 C06 C07 C08 C09 C14 share the model, the emission of cases and the replay into the real code."""
from __future__ import annotations

import concurrent.futures as cf
import re

from .. import core_replay, pool, tlc
from ..checklib import Check, MachineryError, overlap_kind

INVS = {
    "C03": ["C04inert"],
    "C04": ["C04inert"],
    "C05": ["C05fixiff", "C05fixrepairs", "C05create", "C05update", "C05trim", "C05trimkeeps", "C04inert"],
    "C06": ["C06"],
    "C07": ["C07"],
    "C08": ["C08all", "C08same"],
    "C09": ["C09"],
    "C14": ["C14", "C06"],
    "C17": ["C05fixrepairs", "C05trim"],
    "C18": ["C07", "C06", "C04inert"],
}


def cfg_with_invariants(cfg_name: str, invs) -> str:
    """a cfg derived from the committed one that keeps only the listed INVARIANT lines"""
    text = (tlc.SPEC_DIR / cfg_name).read_text()
    out = [l for l in text.splitlines() if not l.startswith("INVARIANT") or l.split()[1] in invs]
    name = "_sel_" + cfg_name
    return name, "\n".join(out) + "\n"


def run_mc(chk: Check, cfg: str, invs, overrides, label, timeout=1500, workers=8):
    name, text = cfg_with_invariants(cfg, invs)
    text = tlc.derive_cfg(text, overrides)
    res = tlc.run_tlc("MC_Core", cfg, overrides=None, extra_files={"run.cfg": text}, timeout=timeout, workers=workers)
    return res


def mismatch_sig(m, run):
    stmt_ops = sorted({s["op"] for t in run["prog"] for s in t})
    d = m["detail"] if isinstance(m["detail"], dict) else {"info": m["detail"]}
    sig = {"clause": m["clause"], "ops": run["ops"], "stmt_ops": stmt_ops, "F": m["F"], "layout": m.get("layout"),
           "asserts": any(s["assert"] for t in run["prog"] for s in t)}
    for k in ("exp", "got", "exc"):
        if k in d:
            sig[k] = d[k]
    if m["clause"] in ("finish", "import") and isinstance(m["detail"], list):
        sig["error"] = m["detail"][0]
        sig["overlap"] = overlap_kind(m["detail"])
        sig["nested"] = False               # the programs of MC_Core have no nested snapshot() call
    return sig


def replay_runs(chk: Check, runs, driver=None, prop_map=None):
    by_id = {r["id"]: r for r in runs}
    if driver == "session":
        from .. import session_driver
        session_driver.preload()
    jobs = [(c, chk.seed, driver) for c in pool.chunks(runs, 8 if driver == "session" else 40)]
    results = pool.parallel_map(core_replay._worker, jobs)
    errors = 0
    for chunk in results:
        for r in chunk:
            run = by_id[r["id"]]
            if "error" in r:
                errors += 1
                if errors <= 3:
                    print("driver error on %s:\n%s" % (r["id"], r["error"]))
                continue
            exp = run["exp"]
            nontrivial = any(exp["failed"]) or any(exp["pending"]) or any("TE" in x for x in exp["res"])
            chk.count(1, r["id"] if nontrivial else None)
            chk.validated(1)
            if len(chk.cov["samples"]) < 4 and nontrivial and run["h"] % 7 == 0:
                chk.sample({"kind": "spec->code replay", "ops": run["ops"], "srcs": run["srcs"], "prog": run["prog"],
                            "approved": r["info"]["F"], "beta": r["info"]["beta"], "driver": r["info"]["driver"],
                            "expected": {k: run["exp"][k] for k in ("res", "failed", "pending", "srcs")}})
            for m in r["mism"]:
                if prop_map:
                    m["props"] = prop_map(m)
                chk.mismatch(m["clause"], mismatch_sig(m, run),
                             {"kind": "core-run", "run": run, "seed": chk.seed, "driver": driver, "mismatch": m,
                              "module": r["text"], "module_after": r["new"]},
                             props=m["props"])
    if errors:
        raise MachineryError("%d replay jobs crashed in the harness" % errors)


MC_STRIDE = {"A": (8, 1), "B": (1024, 32)}        # (quick, thorough) stride of the model-checking runs
EMIT_STRIDE_B = (1024, 64)


def core_check(pid: str, *, f_filter=None, cfgs=("A",), quick_stride=8, quick_keep=20,
               thorough_stride=1, thorough_keep=8, level="model_checking", extra=None,
               sessions_quick=0, sessions_thorough=0, run_filter=None, annotate=None, keep_b=(6, 2), overrides=None,
               session_filter=None, prop_map=None, traces=None, trace_flags="any"):
    """traces = (quick, thorough) number of recorded executions of programs beyond the bounds of MC_Core that
    are validated against ISCore by TLC (spec/TraceCore.tla)"""
    chk = Check(pid, level)
    if chk.replay:
        return replay_file(chk)
    keeps = {}
    for c in cfgs:
        stride_mc = MC_STRIDE[c][0 if chk.quick else 1]
        if c == "A":
            stride_emit = quick_stride if chk.quick else thorough_stride
            keeps[c] = quick_keep if chk.quick else thorough_keep
        else:
            stride_emit = EMIT_STRIDE_B[0 if chk.quick else 1]
            keeps[c] = keep_b[0 if chk.quick else 1]
        # the model-checking run and the emission run of one configuration share the machine
        with cf.ThreadPoolExecutor(2) as ex:
            f_mc = ex.submit(run_mc, chk, "Core_%s_mc.cfg" % c, INVS[pid],
                             dict(overrides or {}, Stride=stride_mc, Offset=chk.seed % stride_mc), "mc " + c)
            f_em = ex.submit(tlc.run_tlc, "MC_Core", "Core_%s_emit.cfg" % c, timeout=1500, workers=8,
                             overrides=dict(overrides or {}, Stride=stride_emit, Offset=chk.seed % stride_emit))
            futs = {("mc", c): f_mc, ("emit", c): f_em}
        for (kind, c2), f in futs.items():
            res = f.result()
            try:
                chk.add_tlc(res, "%s Core_%s (%s)" % (kind, c2, ",".join(INVS[pid]) if kind == "mc" else "Emit"))
                if not res.ok:
                    chk.spec_violation(res, "%s Core_%s" % (kind, c2))
                    continue
                if kind == "emit":
                    runs = core_replay.load_runs(res.out_dir, seed=chk.seed, keep_every=keeps[c2], f_filter=f_filter)
                    if run_filter:
                        runs = [r for r in runs if run_filter(r)]
                    if annotate:
                        for r in runs:
                            annotate(r)
                    if not runs:
                        raise MachineryError("no cases emitted by TLC")
                    replay_runs(chk, runs, prop_map=prop_map)
                    ns = sessions_quick if chk.quick else sessions_thorough
                    if ns and c2 == cfgs[0]:
                        cand = [r for r in runs if session_filter(r)] if session_filter else runs
                        sub = [dict(r, id=r["id"] + "@session") for r in cand[:: max(1, len(cand) // ns)][:ns]]
                        replay_runs(chk, sub, driver="session")
            finally:
                tlc.cleanup(res)
    if traces:
        from .. import trace_core
        trace_core.validate(chk, traces[0 if chk.quick else 1], flags=trace_flags, sessions=120 if chk.quick else 400)
    if extra:
        extra(chk)
    return chk


def chain_check(pid: str, mode: str):
    """C08 / C09: histories of sessions emitted by TLC (Mode chain8 / chain9), every session of a history
    starting from the text that the previous real session wrote"""
    chk = Check(pid, "model_checking")
    if chk.replay:
        return replay_file(chk)
    stride_mc = 8 if chk.quick else 1
    stride_emit = (16 if mode == "chain8" else 8) if chk.quick else 2
    keep = (12 if mode == "chain8" else 4) if chk.quick else (4 if mode == "chain8" else 1)
    with cf.ThreadPoolExecutor(2) as ex:
        f_mc = ex.submit(run_mc, chk, "Core_A_mc.cfg", INVS[pid], {"Stride": stride_mc, "Offset": chk.seed % stride_mc}, "mc")
        f_em = ex.submit(tlc.run_tlc, "MC_Core", "Core_A_emit.cfg", timeout=1500, workers=8,
                         overrides={"Stride": stride_emit, "Offset": chk.seed % stride_emit, "Mode": mode})
    res = f_mc.result()
    chk.add_tlc(res, "mc Core_A (%s)" % ",".join(INVS[pid]))
    if not res.ok:
        chk.spec_violation(res, "mc Core_A")
    tlc.cleanup(res)
    res = f_em.result()
    chk.add_tlc(res, "emit Core_A (%s)" % mode)
    try:
        if mode == "chain8":
            runs = core_replay.load_chain8(res.out_dir, seed=chk.seed, keep_every=keep)
            worker, size = core_replay._worker_chain8, 20
        else:
            runs = core_replay.load_chain9(res.out_dir, seed=chk.seed, keep_every=keep)
            worker, size = core_replay._worker_chain9, 6
    finally:
        tlc.cleanup(res)
    if not runs:
        raise MachineryError("no histories emitted by TLC")
    by_id = {r["id"]: r for r in runs}
    results = pool.parallel_map(worker, [(c, chk.seed, None) for c in pool.chunks(runs, size)])
    # the same histories as real pytest sessions of the plugin (its own session end: report loop, category by
    # category) for a sample
    from .. import session_driver
    session_driver.preload()
    ns = (240 if mode == "chain8" else 60) if chk.quick else (3000 if mode == "chain8" else 600)
    sub = [dict(r, id=r["id"] + "@session") for r in runs[:: max(1, len(runs) // ns)][:ns]]
    by_id.update({r["id"]: r for r in sub})
    results += pool.parallel_map(worker, [(c, chk.seed, "session") for c in pool.chunks(sub, 4)])
    errors = 0
    for chunk in results:
        for r in chunk:
            run = by_id[r["id"]]
            if "error" in r:
                errors += 1
                if errors <= 3:
                    print("driver error on %s:\n%s" % (r["id"], r["error"]))
                continue
            n = 1 if mode == "chain8" else 1 + r["npaths"]
            chk.count(n, r["id"])
            chk.validated(n)
            if len(chk.cov["samples"]) < 3 and run["h"] % 5 == 0:
                if mode == "chain8":
                    chk.sample({"kind": "history of sessions", "ops": run["ops"], "srcs": run["srcs"], "prog": run["prog"],
                                "approved_per_session": [c["F"] for c in run["chain"]],
                                "expected_sources": [c["srcs"] for c in run["chain"]]})
                else:
                    chk.sample({"kind": "orders of approval", "ops": run["ops"], "srcs": run["srcs"], "prog": run["prog"],
                                "orders": [[c["F"] for c in ch] for ch in run["chains"]],
                                "all_at_once": [c["F"] for c in run["atonce"]], "final": run["final"],
                                "confluent_in_spec": run["confluent"]})
            for m in r["mism"]:
                sig = mismatch_sig(m, run)
                if m["clause"] == "order-matters":
                    sig["spec_confluent"] = m["detail"]["spec_confluent"]
                chk.mismatch(m["clause"], sig,
                             {"kind": mode, "run": run, "seed": chk.seed, "mismatch": m, "texts": r.get("texts")},
                             props=m["props"])
    if errors:
        raise MachineryError("%d replay jobs crashed in the harness" % errors)
    return chk


def replay_file(chk: Check):
    import json
    data = json.loads(open(chk.replay).read())
    rp = data["replay"]
    if rp.get("kind") in ("chain8", "chain9"):
        w = core_replay._worker_chain8 if rp["kind"] == "chain8" else core_replay._worker_chain9
        r = w(([rp["run"]], rp["seed"], None))[0]
        mine = [m for m in r.get("mism", []) if chk.pid in m["props"]]
        for t in (r.get("texts") or []):
            print(t)
            print("-----")
        for m in mine:
            print("MISMATCH", json.dumps(m)[:3000])
        print("reproduced" if mine else "not reproduced")
        return 1 if mine else 0
    if rp.get("kind") == "trace-case":
        from .. import trace_core
        sub = Check(chk.pid, chk.level, argv=[])
        sub.seed = rp.get("seed", 0)
        trace_core.validate(sub, 0, cases=[rp["case"]], second=1.0 if rp.get("second") else 0.0, sessions=1 if rp.get("session") else 0)
        print(rp["module"])
        for v in sub.violations:
            print("MISMATCH", json.dumps(v["sig"]), str(v["replay"].get("tlc"))[:600])
        print("reproduced" if sub.violations else "not reproduced")
        return 1 if sub.violations else 0
    if rp.get("kind") == "external-history":
        from .. import external_replay as er, session_driver
        session_driver.preload()
        mism, info = er.replay_history(rp["history"], rp["seed"], rp["collide"])
        mine = [m for m in mism if chk.pid in m["props"]]
        print(json.dumps({"mismatches": mine, "info": info}, indent=1)[:4000])
        print("reproduced" if mine else "not reproduced")
        return 1 if mine else 0
    if rp.get("kind") == "reeval-case":
        from .. import reeval_replay
        mism, info, text = reeval_replay.replay_one(rp["case"], rp["seed"])
        print(text)
        mine = [m for m in mism if chk.pid in m["props"]]
        for m in mine:
            print("MISMATCH", json.dumps(m)[:2000])
        print("reproduced" if mine else "not reproduced")
        return 1 if mine else 0
    if rp.get("kind") == "seqedit-case":
        from .. import seqedit_replay
        mism, info, text, new = seqedit_replay.replay_one(rp["case"], rp["seed"])
        print(text)
        print("--- after apply_all")
        print(new)
        mine = [m for m in mism if chk.pid in m["props"]]
        for m in mine:
            print("MISMATCH", json.dumps(m)[:2000])
        print("reproduced" if mine else "not reproduced")
        return 1 if mine else 0
    if rp.get("kind") == "partial-case":
        from .. import partial_replay
        mism, info, text, new = partial_replay.replay_one(rp["case"], rp["seed"])
        print(text)
        print("--- after the session")
        print(new)
        mine = [m for m in mism if chk.pid in m["props"]]
        for m in mine:
            print("MISMATCH", json.dumps(m)[:2000])
        print("reproduced" if mine else "not reproduced")
        return 1 if mine else 0
    if rp.get("kind") != "core-run":
        print(json.dumps(rp, indent=1)[:4000])
        return 1
    mism, info, text, obs = core_replay.replay_one(rp["run"], rp["seed"], rp.get("driver"))
    print(text)
    print("--- after the session (approved: %s)" % info["F"])
    print(obs.get("files", {}).get("test_case.py"))
    mine = [m for m in mism if chk.pid in m["props"]]
    for m in mine:
        print("MISMATCH", json.dumps(m))
    print("reproduced" if mine else "not reproduced")
    return 1 if mine else 0
