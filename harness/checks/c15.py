"""C15 - faults while rewriting never leave a half-written file or a dangling external."""
import json
import re

from .. import fault_replay as fr, pool, session_driver, tlc
from ..checklib import Check, MachineryError

SCENARIOS = [
    {"mode": "black", "clean": True, "trim": True, "flags": "create,fix,trim"},
    # the middle file declares latin-1 and gets a value that latin-1 cannot represent
    {"mode": "black", "clean": False, "trim": False, "flags": "create,fix", "enc": True},
    {"mode": "cmd", "clean": False, "trim": False, "flags": "create,fix"},
    {"mode": "black", "clean": False, "trim": False, "flags": "create,fix"},
    {"mode": "cmd", "clean": True, "trim": True, "flags": "fix,create,trim"},
]


def mc_module(order):
    return ("----------------------------- MODULE MC_Rewrite -----------------------------\n"
            "EXTENDS ISRewrite\nOrderDef == <<%s>>\nHasExtDef == {%s}\n"
            "=============================================================================\n"
            % (", ".join('"%s"' % f for f in order), ", ".join('"%s"' % f for f in fr.HAS_EXT)))


def validate_traces(chk, traces, order, label):
    """code -> spec: all traces of one scenario in one TLC run of TraceRewrite"""
    batch = {"traces": [{"events": t["events"], "final": t["final"]} for t in traces]}
    res = tlc.run_tlc("TraceRewrite", "TraceRewrite.cfg", workers=8, timeout=1200, dfs=True,
                      extra_files={"MC_Rewrite.tla": mc_module(order), "traces.json": json.dumps(batch)},
                      env={"TRACE_FILE": "traces.json"})
    chk.add_tlc(res, "trace validation " + label)
    ends = {}
    for line in res.printed:
        m = re.match(r'<<"END", (\d+), (TRUE|FALSE), (TRUE|FALSE), (TRUE|FALSE), (TRUE|FALSE), (TRUE|FALSE), (TRUE|FALSE), (TRUE|FALSE)>>', line)
        if m:
            tid = int(m.group(1))
            vals = [x == "TRUE" for x in m.groups()[1:]]
            ends.setdefault(tid, []).append(vals)
    ok = res.ok
    viol = res.violated
    tlc.cleanup(res)
    return ends, ok, viol


def run():
    chk = Check("C15", "fault_enumeration")
    if chk.replay:
        return replay(chk)
    res = tlc.run_tlc("MC_Rewrite", "Rewrite.cfg", workers=8, timeout=600)
    chk.add_tlc(res, "mc Rewrite (Atomic, NoDangling, PersistFirst, AlwaysPopped, Degrades, Completes; as coded)")
    if not res.ok:
        chk.spec_violation(res, "mc Rewrite")
    tlc.cleanup(res)
    session_driver.preload()
    scens = SCENARIOS[:3] if chk.quick else SCENARIOS
    for scen in scens:
        evs, new, problems = fr.baseline(scen)
        for pr in problems:
            # the run WITHOUT any injected fault already leaves a file that is not complete
            chk.mismatch("atomic", {"clause": "atomic", "scenario": "%(mode)s clean=%(clean)s trim=%(trim)s" % scen + (" enc" if scen.get("enc") else ""),
                                    "event": "none", "kind": "none", "file_class": pr["class"]},
                         {"kind": "fault-plan", "scenario": scen, "plan": None, "problem": pr})
        if problems:
            continue
        order = [{"test_a.py": "fa", "test_b.py": "fb", "test_c.py": "fc"}[e["what"][0]] for e in evs if e["ev"] == "open-w"]
        if sorted(order) != sorted(fr.FILES):
            raise MachineryError("baseline run did not write every file: %s" % order)
        plans = fr.plans_for(evs, scen["mode"], not chk.quick)
        results = pool.parallel_map(fr.run_plan, [(scen, None, new)] + [(scen, p, new) for p in plans], maxtasks=20)
        label = "%(mode)s clean=%(clean)s trim=%(trim)s" % scen + (" enc" if scen.get("enc") else "")
        ends, ok, viol = validate_traces(chk, [r["trace"] for r in results], order, label)
        if not ok:
            chk.violations.append({"clause": "trace-invariant:" + str(viol), "sig": {"clause": "trace-invariant", "scenario": label},
                                   "replay": {"kind": "tlc", "scenario": scen}})
        for tid, r in enumerate(results, 1):
            plan = r["plan"] or {"index": 0, "kind": "none"}
            ev = evs[plan["index"] - 1] if plan["index"] else {"ev": "-", "what": []}
            key = "%s|%d|%s" % (label, plan["index"], plan["kind"])
            chk.count(1, key if plan["index"] else None)
            chk.validated(1)
            sig = {"scenario": label, "event": ev["ev"], "kind": plan["kind"]}
            rp = {"kind": "fault-plan", "scenario": scen, "plan": r["plan"], "event": ev, "trace": r["trace"],
                  "verdicts": r["verdicts"], "stdout": r["stdout"]}
            for v in r["verdicts"]:
                chk.mismatch(v["clause"], dict(sig, clause=v["clause"], file_class=v.get("class")), rp)
            # the trace must be a behaviour of the specification that ends in the observed state
            e = ends.get(tid, [])
            if not any(x[0] and x[1] and x[2] for x in e):
                what = "no behaviour of the specification consumes the recorded events" if not e else \
                    "observed final state differs (disk ok / store ok / popped ok per end state: %s)" % [x[:3] for x in e][:4]
                chk.mismatch("trace-rejected", dict(sig, clause="trace-rejected"), dict(rp, reason=what))
            if len(chk.cov["samples"]) < 5 and plan["index"] and (plan["index"] * 7 + len(plan["kind"])) % 23 == 0:
                chk.sample({"scenario": scen, "fault": plan, "at_event": ev, "observed_final": r["trace"]["final"],
                            "session_rc": r["rc"], "accepted_by_spec": True})
    chk.assumptions += ["three test files (two with a fresh external, one formatter-clean variant), black and "
                        "format-command; boundaries = audit events os.rename / os.remove, every open of a test file, every "
                        "formatter invocation, from the start of pytest_sessionfinish; one fault per run",
                        "a crash is os._exit(137) at the boundary; the next session start is a real session"]
    return chk.finish(
        rule="the fault-free run of a scenario yields the list of call boundaries; EVERY boundary x applicable fault kind "
             "(exception, crash; write failure after the truncating open; formatter exit status / garbage / exception / "
             "undecodable output) is executed on a fresh copy (quick: every third read boundary), files classified as "
             "old / complete new / truncated / garbage, the next session start executed, dangling references looked for; "
             "every execution is validated by TLC as a trace of ISRewrite (TraceRewrite); each fault plan is distinct",
        exhaustive=not chk.quick)


def replay(chk):
    d = json.loads(open(chk.replay).read())["replay"]
    session_driver.preload()
    evs, new, problems = fr.baseline(d["scenario"])
    if d.get("plan") is None:
        print(json.dumps(problems, indent=1)[:3000])
        print("reproduced" if problems else "not reproduced")
        return 1 if problems else 0
    r = fr.run_plan((d["scenario"], d["plan"], new))
    print(json.dumps({"verdicts": r["verdicts"], "final": r["trace"]["final"], "rc": r["rc"]}, indent=1))
    print("reproduced" if r["verdicts"] else "not reproduced")
    return 1 if r["verdicts"] else 0
