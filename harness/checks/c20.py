"""C20 - a formatter-clean test file stays formatter-clean."""
import json
import random

from .. import format_replay as fr, pool, session_driver, tlc
from ..checklib import Check, MachineryError


def run():
    chk = Check("C20", "exploration")
    if chk.replay:
        return replay(chk)
    res = tlc.run_tlc("MC_Format", "Format.cfg", overrides={"Mode": "emit"}, workers=8, timeout=600)
    chk.add_tlc(res, "mc + emit Format (C20clean, C20unclean)")
    if not res.ok:
        chk.spec_violation(res, "mc Format")
    try:
        cases = json.loads((res.out_dir / "cases.json").read_text())["cases"]
    finally:
        tlc.cleanup(res)
    rng = random.Random(chk.seed)
    rng.shuffle(cases)
    if chk.quick:
        # stratified: every (options, shape, clean, format-command) combination at least once, the rest at random
        seen, first, rest = set(), [], []
        for c in cases:
            k = (c["c"]["opts"], c["c"]["shape"], c["c"]["clean"], c["c"]["fmtcmd"], c["c"].get("loc"))
            (rest if k in seen else first).append(c)
            seen.add(k)
        cases = first + rest[: max(0, 560 - len(first))]
    session_driver.preload()
    results = pool.parallel_map(fr._worker, [(c, chk.seed) for c in pool.chunks(cases, 4)])
    errors = 0
    unstable = 0
    for out in results:
        for r in out:
            if "error" in r:
                errors += 1
                print("driver error:", r["error"])
                continue
            chk.count(1, r["id"])
            if len(chk.cov["samples"]) < 4 and hash(r["id"]) % 9 == 0:
                chk.sample({"case": json.loads(r["id"]), "session": {k: r["info"].get(k) for k in ("options", "cwd", "rc")}})
            for m in r["mism"]:
                if m["clause"] == "formatter-unstable":
                    unstable += 1
                c = json.loads(r["id"])
                chk.mismatch(m["clause"], {"clause": m["clause"], "cwd": c["cwd"], "opts": c["opts"], "shape": c["shape"], "clean": c["clean"], "fmtcmd": c["fmtcmd"]},
                             {"kind": "format-case", "case": c, "mismatch": m, "info": r["info"]}, props=m["props"])
    chk.cov["formatter_unstable"] = unstable
    if errors:
        raise MachineryError("%d format jobs crashed" % errors)
    chk.assumptions += ["black 26.5 of this sandbox; idempotence of the formatter is measured on every unclean result "
                        "(an unstable formatter is reported, not counted as a violation)",
                        "format-command = black itself on stdin (the only formatter available offline)"]
    return chk.finish(
        rule="TLC enumerates clean/unclean x format-command x 7 option sets (line length 40/60/88/120, magic trailing "
             "comma, string normalisation, preview) x working directory (project root, sub-directory, outside) x 7 value "
             "shapes around the line limit x change set; each case is a real session; the result is checked with an "
             "independent black run built from the same options (clean) or for byte-preservation outside the arguments "
             "(unclean); every case is distinct",
        exhaustive=not chk.quick)


def replay(chk):
    d = json.loads(open(chk.replay).read())["replay"]
    session_driver.preload()
    mism, info = fr.run_case({"c": d["case"], "clean_after": True, "reformat": True}, chk.seed)
    print(info["old"])
    print("--- after")
    print(info["new"])
    mine = [m for m in mism if "C20" in m["props"]]
    print(json.dumps(mine, indent=1)[:2000])
    print("reproduced" if mine else "not reproduced")
    return 1 if mine else 0
