"""C06 - without approval, snapshot(x) behaves like x."""
from .core import core_check


def run():
    chk = core_check("C06", f_filter=lambda F: F == [], quick_keep=3, thorough_keep=1)
    if isinstance(chk, int):
        return chk
    chk.assumptions += ["values are drawn from pools of leaf types (int, str, bytes, float, bool, None)",
                        "the in-process driver performs the steps of Example.run_inline (cross-checked by C19)"]
    return chk.finish(
        rule="TLC enumerates (operation, previous source, program of <=2 statements) exhaustively; every emitted "
             "run with no approved category is concretised (seeded atom->value binding, operand order, placement) "
             "and executed; a run is non-trivial when at least one test of it fails or a comparison is false",
        exhaustive=False)
