"""C06 - without approval, snapshot(x) behaves like x."""
from .core import core_check


def _disabled_sessions(chk):
    """the second half of C06: when the session is not active (disable flag, CI, xdist, xfail) snapshot(v) is v"""
    from .. import config_replay, identity_replay, pool, reeval_replay, session_driver, tlc
    from ..checklib import MachineryError
    # repeated evaluation of one call with dynamic parts: every answer is that of the plain value (ISReEval)
    reeval_replay.run(chk, stride=16 if chk.quick else 4)
    stride = 9000 if chk.quick else 600
    res = tlc.run_tlc("MC_Config", "Config.cfg", overrides={"Mode": "emit", "Stride": stride, "Offset": chk.seed % stride}, timeout=600)
    chk.add_tlc(res, "emit Config (for the identity clause)")
    try:
        cases = config_replay.load_cases(res.out_dir, chk.seed)
    finally:
        tlc.cleanup(res)
    # keep the configurations where the identity clause says something, and a few active ones as control
    cases = [c for c in cases if not c["error"]]
    inactive = [c for c in cases if not c["active"]]
    active = [c for c in cases if c["active"]][: max(20, len(inactive) // 4)]
    cases = inactive + active
    session_driver.preload()
    results = pool.parallel_map(identity_replay._worker, [(c, chk.seed) for c in pool.chunks(cases, 4)])
    by_id = {c["id"]: c for c in cases}
    errors = 0
    for out in results:
        for r in out:
            if "error" in r:
                errors += 1
                print("driver error:", r["error"])
                continue
            c = by_id[r["id"]]
            chk.count(1, "identity|" + r["id"] if not c["active"] else None)
            chk.validated(1)
            for m in r["mism"]:
                chk.mismatch(m["clause"], {"clause": m["clause"], **{k: v for k, v in m["detail"].items() if k in ("test", "why_inactive")}},
                             {"kind": "identity-session", "case": c, "mismatch": m, "session": r["info"]}, props=m["props"])
    if errors:
        raise MachineryError("%d identity sessions crashed" % errors)


def run():
    chk = core_check("C06", f_filter=lambda F: F == [], quick_keep=3, thorough_keep=1, extra=_disabled_sessions, traces=(2000, 20000), trace_flags="none")
    if isinstance(chk, int):
        return chk
    chk.assumptions += ["values are drawn from pools of leaf types (int, str, bytes, float, bool, None)",
                        "the in-process driver performs the steps of Example.run_inline (cross-checked by C19)",
                        "disabled sessions: real pytest sessions for configurations of spec/MC_Config.tla whose Active(cfg) is "
                        "FALSE (disable flag, CI variables, xdist) with ordinary tests before / after xfail-marked tests"]
    return chk.finish(
        rule="TLC enumerates (operation, previous source, program of <=2 statements) exhaustively; every emitted "
             "run with no approved category is concretised (seeded atom->value binding, operand order, placement) "
             "and executed; a run is non-trivial when at least one test of it fails or a comparison is false",
        exhaustive=False)
