"""C13 - external storage stays consistent across any history of runs."""
from .. import external_replay as er, pool, session_driver, tlc
from ..checklib import Check, MachineryError

PROPS_NOCOLLIDE = ["LookupIsExact", "PersistOnlyWithReference", "RemoveOnlyByApprovedTrim", "NewNeverSurvivesStart",
                   "OnlySessionsTouchStorage", "WrittenReferenceResolves"]


def _post(store, arg, exists, data):
    return {"store": store, "arg": arg, "exists": exists, "data": data}


_A = {"d1": "absent", "d2": "absent", "d3": "absent"}
# directed histories: the counterexamples TLC gives for the as-coded variants of the specification
# (ReviewTrims = TRUE violates RemoveOnlyByApprovedTrim) - always replayed
DIRECTED = [
    {"id": "directed_review_trim", "h": 0, "hist": [
        {"a": "add", "f": "fa", "d": "d1", "post": _post(_A, {"fa": "none", "fb": "none"}, {"fa": True, "fb": False}, {"fa": "d1", "fb": "d1"})},
        {"a": "session", "F": ["create"], "review": False, "yes": [], "pruned": _A,
         "post": _post(dict(_A, d1="kept"), {"fa": "d1", "fb": "none"}, {"fa": True, "fb": False}, {"fa": "d1", "fb": "d1"})},
        {"a": "edit", "f": "fa", "d": "d2", "post": _post(dict(_A, d1="kept"), {"fa": "d1", "fb": "none"}, {"fa": True, "fb": False}, {"fa": "d2", "fb": "d1"})},
        {"a": "session", "F": [], "review": True, "yes": ["fix"], "pruned": dict(_A, d1="kept"),
         "post": _post(dict(_A, d1="kept", d2="kept"), {"fa": "d2", "fb": "none"}, {"fa": True, "fb": False}, {"fa": "d2", "fb": "d1"})},
        {"a": "session", "F": [], "review": True, "yes": [], "pruned": dict(_A, d1="kept", d2="kept"),
         "post": _post(dict(_A, d1="kept", d2="kept"), {"fa": "d2", "fb": "none"}, {"fa": True, "fb": False}, {"fa": "d2", "fb": "d1"})},
        {"a": "session", "F": ["trim"], "review": False, "yes": [], "pruned": dict(_A, d1="kept", d2="kept"),
         "post": _post(dict(_A, d2="kept"), {"fa": "d2", "fb": "none"}, {"fa": True, "fb": False}, {"fa": "d2", "fb": "d1"})},
    ]},
]


def cfg_text(collide, steps):
    t = (tlc.SPEC_DIR / "External.cfg").read_text()
    if collide:
        # with colliding hash prefixes a written reference may stay ambiguous (documented limit of a short
        # hash-length); every other clause must still hold
        t = "\n".join(l for l in t.splitlines() if "WrittenReferenceResolves" not in l) + "\n"
    return tlc.derive_cfg(t, {"Collide": collide, "MaxSteps": steps})


def run():
    chk = Check("C13", "model_checking")
    if chk.replay:
        return replay(chk)
    steps = 5 if chk.quick else 7
    for collide in (False, True):
        res = tlc.run_tlc("MC_External", "External.cfg", extra_files={"run.cfg": cfg_text(collide, steps)}, timeout=3000)
        chk.add_tlc(res, "mc External (MaxSteps=%d, Collide=%s)" % (steps, collide))
        if not res.ok:
            chk.spec_violation(res, "mc External collide=%s" % collide)
        tlc.cleanup(res)
    session_driver.preload()
    plan = [(False, 14, 260), (True, 8, 120)] if chk.quick else [(False, 120, 4000), (True, 60, 1500)]
    for collide, num, limit in plan:
        res = tlc.run_tlc("MC_External", "External_sim.cfg", workers=1, simulate="num=%d" % num, depth=7,
                          seed=chk.seed + 11, timeout=1200, overrides={"Collide": collide})
        chk.add_tlc(res, "simulate External (num=%d, Collide=%s)" % (num, collide))
        try:
            hs = er.load_histories(res.out_dir, chk.seed, limit)
        finally:
            tlc.cleanup(res)
        if not hs:
            raise MachineryError("no histories produced")
        if not collide:
            hs = [dict(h) for h in DIRECTED] + hs
        by_id = {h["id"]: h for h in hs}
        results = pool.parallel_map(er._worker, [(c, chk.seed, collide) for c in pool.chunks(hs, 3)])
        errors = 0
        for out in results:
            for r in out:
                h = by_id[r["id"]]
                if "error" in r:
                    errors += 1
                    print("driver error:", r["error"])
                    continue
                chk.count(1, "%s|%s" % (collide, r["id"]))
                chk.validated(1)
                if len(chk.cov["samples"]) < 4 and h["h"] % 7 == 0:
                    chk.sample({"history": [{k: v for k, v in s.items() if k not in ("post", "pruned")} for s in h["hist"]],
                                "expected_final": h["hist"][-1]["post"], "colliding_prefixes": collide, "concretisation": r["info"]})
                for m in r["mism"]:
                    act = m["detail"].get("action", {}) if isinstance(m["detail"], dict) else {}
                    chk.mismatch(m["clause"], {"clause": m["clause"], "collide": collide, "review": act.get("review"),
                                               "hash_length": r["info"]["hash_length"]},
                                 {"kind": "external-history", "history": h, "collide": collide, "seed": chk.seed, "mismatch": m,
                                  "concretisation": r["info"]}, props=m["props"])
        if errors:
            raise MachineryError("%d history jobs crashed" % errors)
    chk.assumptions += ["two test files with one outsourced datum each, three data values; hash-length in {1 (colliding), 6, "
                        "12, 20, 64}, storage-dir default / configured, str and bytes data with and without suffix",
                        "the storage is inspected directly (names, sha256 of contents); the state right after the "
                        "pruning at session start is observed by the harness plugin at the end of pytest_configure"]
    return chk.finish(
        rule="TLC checks the storage invariants / action properties exhaustively over all histories of <= %d steps "
             "(edit datum, add / remove test, session with 16 flag sets x review answers), with and without colliding "
             "hash prefixes; histories produced by tlc -simulate from the history-recording variant of the same spec "
             "are replayed on a real directory with real sessions, storage listing, content addressing, references and "
             "lookups compared after every step; each history is non-trivial (a session runs on an existing test)" % steps)


def replay(chk):
    import json
    d = json.loads(open(chk.replay).read())["replay"]
    session_driver.preload()
    mism, info = er.replay_history(d["history"], d["seed"], d["collide"])
    print(json.dumps({"mismatches": mism, "info": info}, indent=1)[:4000])
    print("reproduced" if mism else "not reproduced")
    return 1 if mism else 0
