"""C11 - fixing a container keeps what did not change."""
from .assign import assign_check


def run():
    chk = assign_check("C11", case_filter=lambda c: c["A"] == ["fix"], sessions=(80, 800))
    if isinstance(chk, int):
        return chk
    return chk.finish(
        rule="TLC checks GoodScript(old, new, Script(old, new)) (valid edit script, matches only on equal elements, as "
             "many matches as a longest common subsequence, equal prefix/suffix matched) for the transcription of "
             "align/nw_align/add_x, and that matched elements / equal entries keep their term; replay with fix only: "
             "hand-written elements carry unique ids, the number of verbatim survivors must reach the LCS length and "
             "the equal prefix/suffix, equal dict entries and keyword arguments must survive; non-trivial = fix pending")
