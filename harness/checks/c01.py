"""C01 - a created snapshot reads back as the value that was observed."""
import json

from .. import codegen_replay as cg, pool, session_driver, tlc
from ..checklib import Check, MachineryError


def run():
    chk = Check("C01", "exploration")
    if chk.replay:
        return replay(chk)
    res = tlc.run_tlc("MC_CodeGen", "CodeGen.cfg", overrides={"Mode": "emit"}, workers=8, timeout=600)
    chk.add_tlc(res, "mc + emit CodeGen (C01, C16)")
    if not res.ok:
        chk.spec_violation(res, "mc CodeGen")
    try:
        cases = cg.load_cases(res.out_dir / "cases.json", chk.seed, 1000 if chk.quick else None)
    finally:
        tlc.cleanup(res)
    if not cases:
        raise MachineryError("no cases")
    session_driver.preload()
    results = pool.parallel_map(cg.run_batch, [(b, chk.seed) for b in pool.chunks(cases, 10)], maxtasks=10)
    for out in results:
        for r in out:
            chk.count(1, json.dumps(r["case"], sort_keys=True) + r["value"])
            if len(chk.cov["samples"]) < 6 and r["h"] % 13 == 0:
                chk.sample({"case": r["case"], "value": r["value"]})
            for m in r["mism"]:
                chk.mismatch(m["clause"], {"clause": m["clause"], "tag": r["case"]["tag"], "cont": r["case"]["cont"], "op": r["case"]["op"]},
                             {"kind": "codegen", "case": r["case"], "value": r["value"], "mismatch": m}, props=m["props"])
    chk.assumptions += ["values per type tag are seeded samples from a fixed pool (numbers incl. huge / negative zero / "
                        "1e100, complex, str, multi-line str, bytes, Enum, Flag, classes, dataclass with defaults and "
                        "default_factory, attrs, pydantic v2, namedtuple, defaultdict, outsourced externals, HasRepr objects)",
                        "strings are covered exhaustively over character classes by C12"]
    return chk.finish(
        rule="TLC enumerates every valid case leaf type (29 tags) x container (10) x operation (5) x placement (assert, "
             "helper argument, module level, loop); each case is concretised, created by a real session "
             "(--inline-snapshot=create), and the rewritten module is run again with --inline-snapshot=disable: the test "
             "of the case must pass; distinct = distinct (case, concrete value)",
        exhaustive=not chk.quick)


def replay(chk):
    d = json.loads(open(chk.replay).read())["replay"]
    session_driver.preload()
    out = cg.run_batch(([{"c": d["case"], "h": 0}], chk.seed))
    print(json.dumps(out, indent=1)[:3000])
    bad = any(r["mism"] for r in out)
    print("reproduced" if bad else "not reproduced (the concrete value is drawn from the pool by the seed)")
    return 1 if bad else 0
