"""C08 - a second run is a no-op."""
from .core import chain_check


def run():
    chk = chain_check("C08", "chain8")
    if isinstance(chk, int):
        return chk
    chk.assumptions += ["deterministic tests; leaf values from the core pools (representation fixed points of richer "
                        "values are exercised by C01/C12)"]
    return chk.finish(
        rule="TLC enumerates histories <<F, F>> for all 16 approved sets and <<all four, none>> over the per-site "
             "model; each history is replayed as chained real runs (run 2 starts from the bytes run 1 wrote); every "
             "history counts as non-trivial (it has at least the second-run no-op clause)")
