"""C08 - a second run is a no-op."""
from .core import chain_check


def _structural(chk):
    """containers: all four categories approved, a later snapshot in the same test, two identical sessions"""
    from . import assign
    from .. import assign_replay, pool, tlc
    from ..checklib import MachineryError
    sizes = assign.SIZES[chk.tier]
    for shape in ("dict", "seq", "call"):
        ts_mc, ts, st, keep = sizes[shape]
        res = tlc.run_tlc("MC_Assign", "Assign_%s.cfg" % shape, workers=16, timeout=3000,
                          extra_files={"run.cfg": assign._cfg(shape, ["C08"], {"Mode": "mc", "TStride": ts_mc * 2, "Offset": chk.seed % ts_mc})})
        chk.add_tlc(res, "mc Assign_%s (C08)" % shape)
        if not res.ok:
            chk.spec_violation(res, "mc Assign_" + shape)
        tlc.cleanup(res)
        res = tlc.run_tlc("MC_Assign", "Assign_%s.cfg" % shape, workers=16, timeout=3000,
                          extra_files={"run.cfg": assign._cfg(shape, ["Emit"], {"Mode": "emit", "TStride": ts * 2, "Stride": st, "Offset": chk.seed % 7})})
        chk.add_tlc(res, "emit Assign_%s" % shape)
        try:
            cases = [c for c in assign_replay.load_cases(res.out_dir, seed=chk.seed, keep_every=1) if c["A"] == ["fix", "update"]]
        finally:
            tlc.cleanup(res)
        cases = cases[:: 2 if chk.quick else 1]
        by_id = {c["id"]: c for c in cases}
        errors = 0
        for out in pool.parallel_map(assign_replay._worker_tail, [(c, chk.seed) for c in pool.chunks(cases, 30)]):
            for r in out:
                if "error" in r:
                    errors += 1
                    print("driver error:", r["error"])
                    continue
                chk.count(1, shape + r["id"])
                chk.validated(1)
                for m in r["mism"]:
                    chk.mismatch(m["clause"], {"clause": m["clause"], "shape": shape},
                                 {"kind": "assign-tail", "case": by_id[r["id"]], "seed": chk.seed, "mismatch": m,
                                  "module": r["text"], "after_run1": r["new"]}, props=m["props"])
        if errors:
            raise MachineryError("%d replay jobs crashed" % errors)


def _fixed_points(chk):
    """values of every type tag / container (the cases of spec/ISCodeGen.tla) as representation fixed points"""
    from .. import codegen_replay as cg, pool, session_driver, tlc
    res = tlc.run_tlc("MC_CodeGen", "CodeGen.cfg", overrides={"Mode": "emit"}, workers=8, timeout=600)
    chk.add_tlc(res, "emit CodeGen (cases for the fixed-point clause)")
    try:
        cases = [c for c in cg.load_cases(res.out_dir / "cases.json", chk.seed + 5) if not c["gap"]]
    finally:
        tlc.cleanup(res)
    cases = cases[: 400 if chk.quick else 3000]
    session_driver.preload()
    for out in pool.parallel_map(cg.run_fixed_point, [(b, chk.seed) for b in pool.chunks(cases, 10)], maxtasks=10):
        for r in out:
            chk.count(1, "fp|" + r["value"])
            chk.validated(1)
            for m in r["mism"]:
                chk.mismatch(m["clause"], {"clause": m["clause"], "tag": r["case"]["tag"], "cont": r["case"]["cont"], "op": r["case"]["op"],
                                            # a float whose repr has an exponent sign that the formatter removes (1e+100 -> 1e100)
                                            "big_exponent": "1e100" in r["value"]},
                             {"kind": "fixed-point", "case": r["case"], "value": r["value"], "mismatch": m}, props=m["props"])


def run():
    chk = chain_check("C08", "chain8")
    if isinstance(chk, int):
        return chk
    _structural(chk)
    _fixed_points(chk)
    # recorded histories of two identical sessions of programs beyond the bounds, validated against ISCore
    from .. import trace_core
    trace_core.validate(chk, 3000 if chk.quick else 20000, second=1.0)
    chk.assumptions += ["deterministic tests; leaf values from the core pools (representation fixed points of richer "
                        "values are exercised by C01/C12)"]
    return chk.finish(
        rule="TLC enumerates histories <<F, F>> for all 16 approved sets and <<all four, none>> over the per-site "
             "model; each history is replayed as chained real runs (run 2 starts from the bytes run 1 wrote); every "
             "history counts as non-trivial (it has at least the second-run no-op clause); recorded executions of "
             "larger random programs are run twice with the same approved set, both sessions are validated by TLC against "
             "ISCore (spec/TraceCore.tla), the second starting from the sources observed after the first")
