"""C18 - end-of-session processing completes for every test program."""
from . import assign
from .core import core_check
from .. import assign_replay, partial_replay, seqedit_replay, tlc


def _externals(chk):
    """sessions over the external storage (histories of spec/ISExternal.tla): create / fix / trim of outsourced
    values in every combination - the end of the session must not fail"""
    from .. import external_replay as er, pool, session_driver
    from ..checklib import MachineryError
    session_driver.preload()
    num, limit = (8, 120) if chk.quick else (60, 1500)
    res = tlc.run_tlc("MC_External", "External_sim.cfg", workers=1, simulate="num=%d" % num, depth=7,
                      seed=chk.seed + 18, timeout=1200, overrides={"Collide": False})
    chk.add_tlc(res, "simulate External (num=%d) for the session-end clause" % num)
    try:
        hs = er.load_histories(res.out_dir, chk.seed, limit)
    finally:
        tlc.cleanup(res)
    if not hs:
        raise MachineryError("no histories produced")
    by_id = {h["id"]: h for h in hs}
    errors = 0
    for out in pool.parallel_map(er._worker, [(c, chk.seed, False) for c in pool.chunks(hs, 3)]):
        for r in out:
            if "error" in r:
                errors += 1
                print("driver error:", r["error"])
                continue
            chk.count(1, "ext|%s" % r["id"])
            chk.validated(1)
            for m in r["mism"]:
                chk.mismatch(m["clause"], {"clause": m["clause"], "model": "external"},
                             {"kind": "external-history", "history": by_id[r["id"]], "collide": False, "seed": chk.seed, "mismatch": m,
                              "concretisation": r["info"]}, props=m["props"])
    if errors:
        raise MachineryError("%d history jobs crashed" % errors)


def _structural(chk):
    _externals(chk)
    # comparisons that raise half way through the structural assignment (spec/ISPartial.tla)
    if chk.quick:
        partial_replay.run(chk, k=2, max_cmp=3)
    else:
        partial_replay.run(chk, k=3, max_cmp=3, stride=8)
    seqedit_replay.run(chk, stride=16 if chk.quick else 2)
    sizes = assign.SIZES[chk.tier]
    for shape in ("inner", "nest", "call"):
        ts_mc, ts, st, keep = sizes[shape]
        res = tlc.run_tlc("MC_Assign", "Assign_%s.cfg" % shape, workers=16, timeout=3000,
                          extra_files={"run.cfg": assign._cfg(shape, ["C02", "C10"], {"Mode": "mc", "TStride": ts_mc * 2, "Offset": chk.seed % ts_mc})})
        chk.add_tlc(res, "mc Assign_%s (C02, C10)" % shape)
        if not res.ok:
            chk.spec_violation(res, "mc Assign_" + shape)
        tlc.cleanup(res)
        res = tlc.run_tlc("MC_Assign", "Assign_%s.cfg" % shape, workers=16, timeout=3000,
                          extra_files={"run.cfg": assign._cfg(shape, ["Emit"], {"Mode": "emit", "TStride": ts, "Stride": st, "Offset": chk.seed % 7})})
        chk.add_tlc(res, "emit Assign_%s" % shape)
        try:
            cases = assign_replay.load_cases(res.out_dir, seed=chk.seed, keep_every=keep * (1 if shape == "inner" else 3))
        finally:
            tlc.cleanup(res)
        assign.run_cases(chk, cases, shape)


def _layout_some(run):
    # a third of the programs in unusual file layouts (encoding declaration, BOM, line ends, form feeds ...)
    if run["h"] % 3 == 0:
        from .c03 import _layout
        _layout(run)


def run():
    chk = core_check("C18", cfgs=("A",), annotate=_layout_some, quick_keep=16, thorough_keep=4, overrides={"HostileOK": True},
                     sessions_quick=320, sessions_thorough=1200, extra=_structural, traces=(3000, 20000),
                     # real sessions: programs where several categories are pending AND approved (the report loop of
                     # the plugin handles the categories one after the other on the same recorder)
                     session_filter=lambda r: len(r["exp"]["F"]) >= 2 and sum(1 for p in r["exp"]["pending"] if len(p) >= 2) > 0)
    if isinstance(chk, int):
        return chk
    chk.assumptions += ["hostile programs: tests that raise, bound comparisons with incomparable values (TypeError in the "
                        "test), second operations (TypeError), re-evaluation with changed arguments (UsageError), failing "
                        "asserts, nested snapshot() calls whose parent is replaced / deleted / only aligned, in lists and dicts"]
    return chk.finish(
        rule="the session model is total (every program of the bounded space reaches the end of the session; ISRewrite "
             "Completes is checked by C15); programs with hostile statements and (term, value) pairs with nested snapshot "
             "calls enumerated by TLC are executed in-process and (sample) as real sessions for every approved set; an "
             "exception while collecting / applying the changes, an INTERNALERROR of the session or overlapping edits is "
             "a violation; non-trivial = a failing test, something pending or a TypeError")
