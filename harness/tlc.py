"""Running TLC on the specifications in /verif/spec and parsing what it reports.

The harness never edits a spec: it copies the modules into a scratch directory, derives the
cfg from the committed one by overriding literal constants (``NAME = value`` lines) and runs
``tlc`` there.  Machinery failures (parse errors, TLC crashes, time-outs) raise TLCError and
end a check with exit status 2 - they are never reported as "property holds".
"""
from __future__ import annotations

import os
import re
import shutil
import subprocess
import tempfile
import time
from dataclasses import dataclass, field
from pathlib import Path

SPEC_DIR = Path(__file__).resolve().parent.parent / "spec"
JAR = "/opt/veriftools/tla/tla2tools.jar:/opt/veriftools/tla/CommunityModules-deps.jar"


class TLCError(Exception):
    pass


@dataclass
class TLCResult:
    ok: bool                      # finished without invariant/property violation
    generated: int = 0
    distinct: int = 0
    depth: int = 0
    wall_s: float = 0.0
    violated: str | None = None   # name of the violated invariant/property
    trace: str = ""               # TLC's counterexample text (if any)
    printed: list = field(default_factory=list)   # raw PrintT lines
    coverage: dict = field(default_factory=dict)  # action name -> (distinct, total)
    out_dir: Path | None = None
    workdir: Path | None = None
    cmd: str = ""
    raw_tail: str = ""
    stdout: str = ""              # everything TLC wrote (long PrintT values are wrapped over several lines)


def tla_value(v) -> str:
    """Python value -> TLA+ literal for cfg files."""
    if isinstance(v, bool):
        return "TRUE" if v else "FALSE"
    if isinstance(v, int):
        return str(v)
    if isinstance(v, str):
        return '"%s"' % v
    if isinstance(v, (set, frozenset)):
        return "{" + ", ".join(sorted(tla_value(x) for x in v)) + "}"
    if isinstance(v, (list, tuple)):
        return "<<" + ", ".join(tla_value(x) for x in v) + ">>"
    raise TypeError(v)


def derive_cfg(cfg_text: str, overrides: dict) -> str:
    out = []
    seen = set()
    for line in cfg_text.splitlines():
        m = re.match(r"^(\s*)([A-Za-z_][A-Za-z0-9_]*)\s*=\s*(.*)$", line)
        if m and m.group(2) in overrides:
            out.append(f"{m.group(1)}{m.group(2)} = {tla_value(overrides[m.group(2)])}")
            seen.add(m.group(2))
        else:
            out.append(line)
    missing = set(overrides) - seen
    if missing:
        raise TLCError(f"cfg has no constant(s) {sorted(missing)}")
    return "\n".join(out) + "\n"


def run_tlc(module: str, cfg: str, *, overrides: dict | None = None, workers: int = 16,
            timeout: int = 900, env: dict | None = None, simulate: str | None = None,
            depth: int | None = None, seed: int | None = None, keep: bool = False,
            coverage: bool = False, extra_files: dict | None = None,
            deadlock: bool | None = None, dfs: bool = False, scratch: Path | None = None) -> TLCResult:
    """Run TLC on spec/<module>.tla with spec/<cfg> (plus constant overrides).

    The result's out_dir is the directory given to the spec as IOEnv.OUT_DIR (JSON cases are
    written there by the spec); the caller removes result.workdir when done (or passes keep).
    """
    work = Path(tempfile.mkdtemp(prefix="verif_tlc_", dir=scratch))
    for f in SPEC_DIR.glob("*.tla"):
        shutil.copy(f, work / f.name)
    cfg_text = (SPEC_DIR / cfg).read_text()
    if overrides:
        cfg_text = derive_cfg(cfg_text, overrides)
    (work / "run.cfg").write_text(cfg_text)
    for name, content in (extra_files or {}).items():
        (work / name).write_text(content)
    out_dir = work / "out"
    out_dir.mkdir()
    cmd = ["java", "-XX:+UseParallelGC", "-XX:ParallelGCThreads=%d" % max(2, workers // 2), "-Xss16m", "-Xmx6g"]
    if dfs:
        cmd.append("-Dtlc2.tool.queue.IStateQueue=StateDeque")
    cmd += ["-cp", JAR, "tlc2.TLC", "-workers", str(workers), "-metadir", str(work / "meta"),
            "-noGenerateSpecTE", "-config", "run.cfg"]
    if coverage:
        cmd += ["-coverage", "1"]
    if simulate:
        cmd += ["-simulate", simulate]
    if depth is not None:
        cmd += ["-depth", str(depth)]
    if seed is not None:
        cmd += ["-seed", str(seed)]
    if deadlock is False:
        cmd += ["-deadlock"]
    cmd.append(module + ".tla")
    e = dict(os.environ)
    e["OUT_DIR"] = str(out_dir)
    e.update(env or {})
    t0 = time.time()
    try:
        p = subprocess.run(cmd, cwd=work, env=e, capture_output=True, text=True, timeout=timeout)
    except subprocess.TimeoutExpired:
        subprocess.run(["pkill", "-f", str(work)], check=False)
        shutil.rmtree(work, ignore_errors=True)
        raise TLCError(f"TLC timed out after {timeout}s on {module}/{cfg}")
    wall = time.time() - t0
    out = p.stdout
    res = TLCResult(ok=False, wall_s=wall, out_dir=out_dir, workdir=work, cmd=" ".join(cmd[cmd.index("tlc2.TLC"):]))
    res.raw_tail = out[-4000:]
    res.stdout = out
    m = re.search(r"(\d+) states generated, (\d+) distinct states found", out)
    if m:
        res.generated, res.distinct = int(m.group(1)), int(m.group(2))
    m = re.search(r"The depth of the complete state graph search is (\d+)", out)
    if m:
        res.depth = int(m.group(1))
    res.printed = [l for l in out.splitlines() if l.startswith("<<") or l.startswith('"')]
    if coverage:
        for m in re.finditer(r"^<(\w+) line \d+, col \d+ to line \d+, col \d+ of module (\w+)>: (\d+):(\d+)", out, re.M):
            res.coverage[m.group(1)] = (int(m.group(3)), int(m.group(4)))
    mv = re.search(r"Error: Invariant (\w+) is violated", out) or \
        re.search(r"Error: Action property (\w+) is violated", out) or \
        re.search(r"Error: Temporal properties were violated", out)
    if mv:
        res.violated = mv.group(1) if mv.groups() else "temporal"
        i = out.index(mv.group(0))
        res.trace = out[i:i + 6000]
    elif "Model checking completed. No error has been found." in out or \
            (simulate and "Error:" not in out and p.returncode in (0,)):
        res.ok = True
    elif simulate and "Error:" not in out:
        res.ok = True
    else:
        if not keep:
            shutil.rmtree(work, ignore_errors=True)
        raise TLCError(f"TLC failed on {module}/{cfg} (rc={p.returncode}):\n{out[-3000:]}\n{p.stderr[-1000:]}")
    return res


def cleanup(res: TLCResult):
    if res.workdir:
        shutil.rmtree(res.workdir, ignore_errors=True)


def sany_all() -> list[str]:
    """Parse every module (setup_cmd); returns the list of modules that failed."""
    bad = []
    work = Path(tempfile.mkdtemp(prefix="verif_sany_"))
    try:
        for f in SPEC_DIR.glob("*.tla"):
            shutil.copy(f, work / f.name)
        for f in sorted(SPEC_DIR.glob("*.tla")):
            p = subprocess.run(["java", "-cp", JAR, "tla2sany.SANY", f.name], cwd=work,
                               capture_output=True, text=True)
            if p.returncode != 0 or "*** Errors" in p.stdout or "Fatal" in p.stdout:
                bad.append(f.name + ": " + p.stdout[-500:])
    finally:
        shutil.rmtree(work, ignore_errors=True)
    return bad
