"""The table MANIFEST.json is generated from (bin/mkmanifest)."""

GUARD = "INLINE_SNAPSHOT_VERIF"

TRUST = ("TLC explores the bounded model exhaustively; the binding to the code is by replaying TLC-generated "
         "cases into the implementation of the current /repo tree and by validating recorded executions with TLC; "
         "concrete values/layouts are seeded samples; Python, black, pytest are used as they are")

CORE = "TLA+ spec of the per-call-site machine (spec/ISCore.tla, MC_Core.tla) model-checked by TLC; TLC-emitted behaviours replayed into the real code"

CHECKS = {
    "C03": dict(
        category="model_checking", technique=CORE,
        text="every session case of the per-site model is executed; the rewritten module must parse, keep its "
             "snapshot() calls and be byte-identical outside the call parentheses (independent tokenizer pass); the "
             "model states which arguments may change at all (C04inert)",
        design_ref="DESIGN.md section 5 C03"),
    "C05": dict(
        category="model_checking", technique=CORE,
        text="TLC checks the documented category algebra as invariants on the bounded model (one and two sites); the "
             "categories reported per call site and the argument written back by the real code are compared with the "
             "model for every emitted (program, approved set)",
        design_ref="DESIGN.md section 5 C05"),
    "C06": dict(
        category="model_checking", technique=CORE,
        text="TLC checks on the bounded per-site model that without flags every comparison answers like the plain "
             "value and that a second operation raises; every emitted behaviour (operation x previous source x "
             "program) is executed against the implementation and each result compared with the model's",
        design_ref="DESIGN.md section 5 C06"),
    "C07": dict(
        category="model_checking", technique=CORE,
        text="invariant `wrong or missing snapshot <=> failed test` checked by TLC for every program and approved "
             "set; replayed in-process (fixture counters) and as real pytest sessions of the plugin (per-test outcome, "
             "exit status)",
        design_ref="DESIGN.md section 5 C07"),
    "C08": dict(
        category="model_checking", technique=CORE + "; histories of sessions",
        text="TLC checks the fixed-point invariants (all-then-nothing, same-set-twice) and emits histories of two "
             "sessions; they are replayed as chained real runs, the second run must report nothing to create/fix/trim, "
             "show no non-empty diff and change no byte",
        design_ref="DESIGN.md section 5 C08"),
    "C09": dict(
        category="model_checking", technique=CORE + "; histories of sessions",
        text="TLC proves confluence of single-category approvals for all bounded programs without aborting asserts "
             "and emits every order for programs with >=2 pending categories; chained real runs must end in the same "
             "syntax tree as the all-at-once run",
        design_ref="DESIGN.md section 5 C09"),
    "C14": dict(
        category="model_checking", technique=CORE + "; two-site interleavings",
        text="TLC checks per-site independence on all interleavings of two sites over two tests; replay with "
             "adversarial placements of the calls (same line, same code object, closures, helpers, module level) and "
             "re-evaluation with a changed argument",
        design_ref="DESIGN.md section 5 C14"),
    "C17": dict(
        category="model_checking", technique=CORE + "; mutable carriers",
        text="the model records values (not references); every emitted run is executed with the compared values "
             "living in one mutable object that is mutated after each comparison, and what is written must equal the "
             "model's prediction",
        design_ref="DESIGN.md section 5 C17"),
}

ASSIGN = "TLA+ spec of structural assignment (spec/ISAlign.tla, ISAssign.tla, MC_Assign.tla) model-checked by TLC; TLC-emitted (term, value, approved set) cases replayed into the real code"
CHECKS.update({
    "C02": dict(
        category="model_checking", technique=ASSIGN,
        text="TLC checks ManagedEq(Assign(term, value, {create, fix}), value) over four bounded shape universes "
             "(sequences, nested lists, dicts, constructor calls; hand-written leaves, Is(), f-strings, starred and "
             "non-display containers); every emitted case is executed, the rewritten argument abstracted back and "
             "judged (managed parts equal, passes when disabled iff no user part disagrees)",
        design_ref="DESIGN.md section 5 C02"),
    "C10": dict(
        category="model_checking", technique=ASSIGN,
        text="invariant: the user-controlled sub-terms of the result are an ordered selection of the original ones; "
             "in the replay every such part carries a unique id and must be found unchanged wherever the model keeps it",
        design_ref="DESIGN.md section 5 C10"),
    "C11": dict(
        category="model_checking", technique=ASSIGN + "; alignment as relation + transcription",
        text="TLC checks that the transcription of align/nw_align/add_x satisfies the relation GoodScript (maximal "
             "matches, prefix/suffix) on all bounded pairs and that matched/equal parts keep their term; replay with fix "
             "only counts the verbatim survivors (unique ids) against the LCS length",
        design_ref="DESIGN.md section 5 C11"),
})

CHECKS.update({
    "C12": dict(
        category="exploration",
        technique="TLA+ spec of literal generation and lexing over character classes (spec/ISStrLit.tla) model-checked by TLC; emitted strings concretised and round-tripped through the real tool",
        text="TLC proves the round trip (well-formed literal, lexes back to the value, triple-quoted iff multi-line) "
             "for all strings up to length 4 (quick) / 6 (thorough) over 11 character classes; all emitted strings "
             "are concretised with seeded representatives, created as snapshots in eight contexts under black / no "
             "formatter / format-command, and read back with ast.literal_eval; bytes and random Unicode strings "
             "up to length 40 in addition. Concrete characters are sampled, hence `exploration`",
        design_ref="DESIGN.md section 5 C12"),
})

CHECKS.update({
    "C04": dict(
        category="model_checking",
        technique="TLA+ spec of flag resolution and the approval gate (spec/ISConfig.tla, MC_Config.tla) model-checked by TLC; emitted configurations replayed as real pytest sessions",
        text="TLC checks `applied = approved by the user /\\ pending` for every configuration of flag sources "
             "(command line, shortcut, environment variable, pyproject default-flags / -tui), modes, CI / PyCharm / "
             "terminal, xdist (controller and workers as separate processes), skip-updates and review answers; a stride "
             "sample of the configurations is run as real sessions on a project with one pending change per category "
             "and the applied categories are read off the files",
        design_ref="DESIGN.md section 5 C04"),
})

CHECKS.update({
    "C13": dict(
        category="model_checking",
        technique="TLA+ spec of the external storage over histories (spec/ISExternal.tla) model-checked by TLC; histories from tlc -simulate replayed with real sessions",
        text="TLC checks content-addressed lookup, persist-only-with-reference, remove-only-by-approved-trim, "
             "new-never-survives-start and only-sessions-touch-storage over ALL histories of <= 5 (quick) / 7 (thorough) "
             "steps, also with colliding hash prefixes; simulated histories of the same spec are replayed on a real "
             "directory (real pytest sessions, edits by the harness) and the storage, the references and the lookups "
             "are compared after every step",
        design_ref="DESIGN.md section 5 C13"),
})

CHECKS.update({
    "C15": dict(
        category="fault_enumeration",
        technique="TLA+ spec of the write pipeline with one fault (spec/ISRewrite.tla) model-checked by TLC; every call boundary x fault kind injected into real sessions; each execution validated by TLC as a trace (spec/TraceRewrite.tla)",
        text="TLC checks Atomic / NoGarbage / NoDangling / PersistFirst / AlwaysPopped / Degrades and the liveness "
             "property Completes on the pipeline model with an exception, crash, formatter error or formatter garbage at "
             "any step; the fault-free run of each scenario yields the list of real call boundaries (audit events, every "
             "open of a test file, every formatter invocation) and every boundary x applicable fault kind is executed "
             "on a fresh project, followed by a real next session start; each recorded execution (events + observed final "
             "state) is validated by TLC against the specification",
        design_ref="DESIGN.md section 5 C15",
        note="one fault per run; boundaries are those visible as audit events / wrapped calls from the start of "
             "pytest_sessionfinish; a crash is os._exit at the boundary; the formatter contract (garbage = unparsable) "
             "is the property's own"),
})

CHECKS.update({
    "C18": dict(
        category="model_checking",
        technique=CORE + " with hostile statements; " + ASSIGN + " with nested snapshot() calls",
        text="programs whose tests raise, compare incomparable values, use a second operation, re-evaluate changed "
             "arguments or fail asserts (MC_Core with HostileOK) and (term, value) pairs with nested snapshot calls at "
             "every position of lists / dicts (MC_Assign shape `inner`) are enumerated by TLC and executed in-process and "
             "as real sessions for every approved set: collecting, reporting and applying the changes must finish "
             "without exception / INTERNALERROR and without overlapping edits",
        design_ref="DESIGN.md section 5 C18"),
})

CHECKS.update({
    "C19": dict(
        category="model_checking",
        technique=CORE + "; drivers as instances of one session (spec/ISDrivers.tla), compared on the same projects",
        text="TLC checks DriversAgree on the session model; emitted programs x approved sets and hand-written projects "
             "(HasRepr values, several files, failing / raising tests, [tool.black] options) are run through "
             "Example.run_inline, Example.run_pytest, a real pytest session and the harness' own in-process driver, and "
             "the changed files and pending categories are compared with the real session",
        design_ref="DESIGN.md section 5 C19"),
})

CODEGEN = "TLA+ spec of the code-generation cases (spec/ISCodeGen.tla) model-checked by TLC; every enumerated case concretised and run through real sessions"
CHECKS.update({
    "C01": dict(
        category="exploration", technique=CODEGEN,
        text="TLC enumerates every valid case leaf type (29 tags incl. Enum, Flag, classes, dataclass / attrs / pydantic / "
             "namedtuple / defaultdict, outsourced externals, HasRepr objects) x container x operation x placement; each "
             "is created by a real session and the rewritten module must pass with --inline-snapshot=disable. Concrete "
             "values per tag are sampled, hence `exploration`",
        design_ref="DESIGN.md section 5 C01"),
    "C16": dict(
        category="exploration", technique=CODEGEN + "; separate interpreters per hash seed",
        text="the model states that the written order of set elements never depends on the iteration order (per element "
             "class: totally ordered, not orderable, partially ordered); 20 values x 2 construction variants x 4 (quick) / "
             "12 (thorough) PYTHONHASHSEED values x black / no black / format-command are created in separate "
             "interpreters and compared textually (seeds, orders) and by syntax tree (formatters)",
        design_ref="DESIGN.md section 5 C16"),
    "C20": dict(
        category="exploration",
        technique="TLA+ spec of the whole-file formatting decision (spec/ISFormat.tla) model-checked by TLC; every case run as a real session and judged by an independent black run",
        text="TLC checks CleanStaysClean / UncleanNotReformatted for clean x format-command x option set x working "
             "directory x value shape x change set; each case is a real session in a project with that [tool.black] "
             "section, started from the root, a sub-directory or outside; the result is checked by black with a Mode "
             "built independently from the same options",
        design_ref="DESIGN.md section 5 C20"),
})

NOT_YET = {
}

ALL = ["C%02d" % i for i in range(1, 21)]
