"""The table MANIFEST.json is generated from (bin/mkmanifest)."""

GUARD = "INLINE_SNAPSHOT_VERIF"

TRUST = ("TLC explores the bounded model exhaustively; the binding to the code is by replaying TLC-generated "
         "cases into the implementation of the current /repo tree and by validating recorded executions with TLC; "
         "concrete values/layouts are seeded samples; Python, black, pytest are used as they are")

CHECKS = {
    "C06": dict(
        category="model_checking",
        technique="TLA+ spec (ISCore/MC_Core) model-checked by TLC; TLC-emitted cases replayed into the real code",
        text="TLC checks on the bounded per-site model that without flags every comparison answers like the plain "
             "value and that a second operation raises; every emitted behaviour (operation x previous source x "
             "program) is executed against the implementation and each result compared with the model's",
        design_ref="DESIGN.md section 5 C06",
    ),
}

NOT_YET = {
}

ALL = ["C%02d" % i for i in range(1, 21)]
