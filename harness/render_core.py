"""Concretisation (gamma) of abstract ISCore cases into real test modules, and abstraction (alpha) of
what the tool wrote back into the abstract domain.

An abstract case is (ops, srcs, prog) as emitted by spec/MC_Core.tla.  beta maps atoms to concrete
Python values (monotone for <= / >= sites), keys to concrete dict keys, and chooses a hand-written
("non canonical") spelling for entries whose canon flag is FALSE.
"""
from __future__ import annotations

import ast
import random

# ordered pools: beta must be monotone (atom order = value order) for bound comparisons
ORDERED_POOLS = [
    [0, 1, 2, 3, 4, 5],
    [-7, -1, 3, 10 ** 20, 10 ** 20 + 1, 10 ** 30],
    ["a", "b", "c", "d", "e", "f"],
    [0.5, 1.5, 2.25, 3.5, 100.0, 1000.5],
    [b"a", b"ab", b"b", b"c", b"ca", b"d"],
    ["", " ", "A", "a b", "b'c", 'c"d'],
    [False, True],
    [-2.5, -0.0, 0.25, 7.0, 8.5, 9.75],
]
# pools for ==, in, keys: pairwise unequal in Python (no 1 == True == 1.0 traps)
PLAIN_POOLS = ORDERED_POOLS[:6] + [
    [None, "x", 2.5, b"x", 7, "y"],
    [None, True, "True", b"\x00", -1, 3.0],
    ["x" * 30, "y" * 30, "z" * 30, "w" * 30, "v" * 30, "u" * 30],
    [5, "5", b"5", 5.5, None, "None"],
]
KEY_POOLS = [
    ["a", "b", "c", "d"],
    [1, 2, 3, 4],
    ["k 1", "k'2", 'k"3', "k\\4"],
    [0, "0", b"0", None],
    [-1, 10 ** 12, "x", 2.5],
]
WRAPPERS = ["[{t}][0]", "({t} if 1 else 0)", "(lambda: {t})()", "max([{t}])", "[0, {t}][-1]"]


class Beta:
    def __init__(self, rng: random.Random, natoms: int, ops, need_order: bool):
        pools = [p for p in (ORDERED_POOLS if need_order else PLAIN_POOLS) if len(p) >= natoms]
        pool = rng.choice(pools)
        # a monotone injection of the atoms into the pool
        idx = sorted(rng.sample(range(len(pool)), natoms))
        self.atoms = [pool[i] for i in idx]
        kp = rng.choice(KEY_POOLS)
        self.keys = kp
        self.wrapper = rng.choice(WRAPPERS)
        self.reflect = rng.random() < 0.5
        self.name = "atoms=%r keys=%r wrap=%s" % (self.atoms, self.keys[:3], self.wrapper)

    def val(self, a):
        return self.atoms[a]

    def key(self, k):
        return self.keys[k - 1]

    def canon_text(self, a):
        return repr(self.atoms[a])

    def entry_text(self, e):
        t = self.canon_text(e["v"])
        return t if e["canon"] else self.wrapper.format(t=t)

    def inv(self, value):
        for i, a in enumerate(self.atoms):
            if type(a) is type(value) and a == value and repr(a) == repr(value):
                return i
        return None

    def inv_key(self, value):
        for i, a in enumerate(self.keys):
            if type(a) is type(value) and a == value:
                return i + 1
        return None


def needs_order(ops, prog):
    for t in prog:
        for s in t:
            if s["op"] in ("le", "ge", "dle", "dge"):
                return True
    return any(o in ("le", "ge") for o in ops)


def src_text(beta: Beta, op: str, src) -> str:
    if not src["def"]:
        return ""
    e = src["e"]
    if op in ("eq", "le", "ge", "none"):
        return beta.entry_text(e[0])
    if op == "in":
        return "[" + ", ".join(beta.entry_text(x) for x in e) + "]"
    if op == "dict":
        return "{" + ", ".join("%r: %s" % (beta.key(x["k"]), beta.entry_text(x)) for x in e) + "}"
    raise ValueError(op)


def stmt_expr(beta: Beta, s, site_expr: str, reflect: bool) -> str:
    x = repr(beta.val(s["x"]))
    op = s["op"]
    S = site_expr
    if op == "none":
        return S
    if op == "eq":
        return f"{S} == {x}" if reflect else f"{x} == {S}"
    if op == "le":
        return f"{S} >= {x}" if reflect else f"{x} <= {S}"
    if op == "ge":
        return f"{S} <= {x}" if reflect else f"{x} >= {S}"
    if op == "in":
        return f"{x} in {S}"
    k = repr(beta.key(s["k"]))
    if op == "deq":
        return f"{S}[{k}] == {x}" if reflect else f"{x} == {S}[{k}]"
    if op == "dle":
        return f"{S}[{k}] >= {x}" if reflect else f"{x} <= {S}[{k}]"
    if op == "dge":
        return f"{S}[{k}] <= {x}" if reflect else f"{x} >= {S}[{k}]"
    raise ValueError(op)


HEADER = "from inline_snapshot import snapshot\nimport verif_rec as _r\n\n"


def render(ops, srcs, prog, beta: Beta, imp: bool, rng: random.Random, placement: str = "func") -> str:
    """The test module for an abstract case.

    placement "func":   def s1(): return snapshot(<src>)     (evaluated by every statement)
              "module": _s1 = snapshot(<src>) at import; s1() returns it
    """
    out = [HEADER]
    for i, (op, src) in enumerate(zip(ops, srcs), 1):
        t = src_text(beta, op, src)
        if imp:
            out.append(f"_s{i} = snapshot({t})\n\n\ndef s{i}():\n    return _s{i}\n\n\n")
        else:
            out.append(f"def s{i}():\n    return snapshot({t})\n\n\n")
    for ti, test in enumerate(prog, 1):
        out.append(f"def test_{ti}():\n")
        for j, s in enumerate(test, 1):
            refl = rng.random() < 0.5
            e = stmt_expr(beta, s, f"s{s['site']}()", refl)
            out.append(f"    with _r.at({ti}, {j}):\n")
            if s["op"] == "none":
                out.append(f"        {e}\n")
            elif s["assert"]:
                out.append(f"        assert {e}\n")
            else:
                out.append(f"        _r.val({e})\n")
        out.append("\n\n")
    return "".join(out)


def _same(node, text):
    try:
        return ast.dump(node) == ast.dump(ast.parse(text, mode="eval").body)
    except SyntaxError:
        return False


def alpha_entry(beta: Beta, node, k=0, env=None):
    """abstract entry {k, v, canon} of an expression node, or {"alien": text}"""
    try:
        value = eval(compile(ast.Expression(node), "<alpha>", "eval"), dict(env or {}))
    except Exception as e:  # noqa
        return {"alien": "eval: %s" % type(e).__name__}
    a = beta.inv(value)
    if a is None:
        return {"alien": "value %r" % (value,)}
    if _same(node, beta.canon_text(a)):
        return {"k": k, "v": a, "canon": True}
    if _same(node, beta.wrapper.format(t=beta.canon_text(a))):
        return {"k": k, "v": a, "canon": False}
    return {"alien": "text %s" % ast.unparse(node)}


def alpha_src(beta: Beta, op: str, arg_node):
    if arg_node is None:
        return {"def": False, "e": []}
    if op in ("eq", "le", "ge", "none"):
        return {"def": True, "e": [alpha_entry(beta, arg_node)]}
    if op == "in":
        if not isinstance(arg_node, ast.List):
            return {"def": True, "e": [{"alien": "not a list: " + ast.unparse(arg_node)}]}
        return {"def": True, "e": [alpha_entry(beta, n) for n in arg_node.elts]}
    if op == "dict":
        if not isinstance(arg_node, ast.Dict) or any(k is None for k in arg_node.keys):
            return {"def": True, "e": [{"alien": "not a dict: " + ast.unparse(arg_node)}]}
        es = []
        for kn, vn in zip(arg_node.keys, arg_node.values):
            try:
                kv = ast.literal_eval(kn)
            except Exception:  # noqa
                es.append({"alien": "key " + ast.unparse(kn)})
                continue
            k = beta.inv_key(kv)
            if k is None:
                es.append({"alien": "key %r" % (kv,)})
                continue
            es.append(alpha_entry(beta, vn, k))
        return {"def": True, "e": es}
    raise ValueError(op)
