"""Concretisation (gamma) of abstract ISCore cases into real test modules, and abstraction (alpha) of
what the tool wrote back into the abstract domain.

An abstract case is (ops, srcs, prog) as emitted by spec/MC_Core.tla.  beta maps atoms to concrete
Python values (monotone for <= / >= sites), keys to concrete dict keys, and chooses a hand-written
("non canonical") spelling for entries whose canon flag is FALSE.  gamma additionally chooses where
the snapshot() calls are placed (the call-site key of the tool is (code object, instruction offset))
and - for C17 - lets every compared value live in a mutable object that is mutated after each
comparison.
"""
from __future__ import annotations

import ast
import random

# ordered pools: beta must be monotone (atom order = value order) for bound comparisons
ORDERED_POOLS = [
    [0, 1, 2, 3, 4, 5],
    [-7, -1, 3, 10 ** 20, 10 ** 20 + 1, 10 ** 30],
    ["a", "b", "c", "d", "e", "f"],
    [0.5, 1.5, 2.25, 3.5, 100.0, 1000.5],
    [b"a", b"ab", b"b", b"c", b"ca", b"d"],
    ["", " ", "A", "a b", "b'c", 'c"d'],
    [False, True],
    [-2.5, -0.0, 0.25, 7.0, 8.5, 9.75],
]
# pools for ==, in, keys: pairwise unequal in Python (no 1 == True == 1.0 traps)
ORDERED_POOLS.append(["\xdf\u20ac", "\xe9", "\xff", "\u03a9", "\u6f22\u5b57", "\U0001f600"])      # beyond ASCII / latin-1 / the BMP
PLAIN_POOLS = ORDERED_POOLS[:6] + [ORDERED_POOLS[-1]] + [
    [None, "x", 2.5, b"x", 7, "y"],
    [None, True, "True", b"\x00", -1, 3.0],
    ["x" * 30, "y" * 30, "z" * 30, "w" * 30, "v" * 30, "u" * 30],
    [5, "5", b"5", 5.5, None, "None"],
]
KEY_POOLS = [
    ["a", "b", "c", "d"],
    [1, 2, 3, 4],
    ["k 1", "k'2", 'k"3', "k\\4"],
    [0, "0", b"0", None],
    [-1, 10 ** 12, "x", 2.5],
]
WRAPPERS = ["[{t}][0]", "({t} if 1 else 0)", "(lambda: {t})()", "max([{t}])", "[0, {t}][-1]"]
# mutable carriers for C17: the compared object is rebuilt in place for every comparison
CARRIERS = ["list", "dict", "nested", "tup", "tup"]
PLACEMENTS = ["func", "oneline", "samefunc", "nested", "param"]


class Beta:
    def __init__(self, rng: random.Random, natoms: int, ops, need_order: bool, carrier: str | None = None):
        pools = [p for p in (ORDERED_POOLS if need_order else PLAIN_POOLS) if len(p) >= natoms]
        if carrier == "dict" and need_order:
            carrier = "list"            # dicts are not ordered
        pool = rng.choice(pools)
        # a monotone injection of the atoms into the pool
        idx = sorted(rng.sample(range(len(pool)), natoms))
        self.raw = [pool[i] for i in idx]
        self.carrier = carrier
        self.atoms = [self.carry(v) for v in self.raw]
        kp = rng.choice(KEY_POOLS)
        self.keys = kp
        self.wrapper = rng.choice(WRAPPERS)
        # how list / dict displays are laid out: plain, with a trailing comma, one element per line (black style)
        self.display = rng.choice(["plain", "plain", "trailing", "multiline"])
        self.site_wrapper: dict = {}
        # twins: an equal value of another type (1 == True == 1.0).  Only used as the compared value of `in`
        # statements: membership is decided by ==, so a twin behaves exactly like the atom it is equal to
        self.twins = {}
        if carrier is None:
            for i, v in enumerate(self.raw):
                if type(v) is int and v in (0, 1) and rng.random() < 0.5:
                    self.twins[i] = bool(v)
                elif type(v) is int and abs(v) < 2 ** 50:
                    self.twins[i] = float(v)
                elif type(v) is float and v == int(v) and repr(v) != "-0.0":
                    self.twins[i] = int(v)
                elif type(v) is bool:
                    self.twins[i] = int(v)
            if any(type(t) is type(w) and t == w for j, t in self.twins.items() for k, w in enumerate(self.raw) if k != j):
                self.twins = {}         # (a twin must not collide with another atom of the pool)
        self.name = "atoms=%r keys=%r wrap=%s carrier=%s" % (self.atoms, self.keys[:3], self.wrapper, carrier)

    def carry(self, v):
        if self.carrier == "list":
            return [v]
        if self.carrier == "dict":
            return {"k": v}
        if self.carrier == "nested":
            return [0, [v, "t"]]
        if self.carrier == "tup":
            return ("t", [v])          # an immutable tuple that holds a mutable list
        return v

    def val(self, a):
        return self.atoms[a]

    def key(self, k):
        return self.keys[k - 1]

    def canon_text(self, a):
        return repr(self.atoms[a])

    def entry_text(self, e, site=None):
        t = self.canon_text(e["v"])
        if e["canon"]:
            return t
        w = self.site_wrapper.get(site, self.wrapper)
        return w.format(t=t, t2=self.canon_text((e["v"] + 1) % len(self.atoms)), i=site)

    def inv(self, value):
        for i, a in enumerate(self.atoms):
            if type(a) is type(value) and a == value and repr(a) == repr(value):
                return i
        for i, t in self.twins.items():
            if type(t) is type(value) and t == value:
                return i
        return None

    def inv_key(self, value):
        for i, a in enumerate(self.keys):
            if type(a) is type(value) and a == value:
                return i + 1
        return None


def needs_order(ops, prog):
    for t in prog:
        for s in t:
            if s["op"] in ("le", "ge", "dle", "dge"):
                return True
    return any(o in ("le", "ge") for o in ops)


def src_text(beta: Beta, op: str, src, site=None) -> str:
    if not src["def"]:
        return ""
    e = src["e"]
    def et(j, x):
        # in a site that is re-evaluated with a changed argument every hand-written entry changes
        return beta.entry_text(x, site)
    if op in ("eq", "le", "ge", "none"):
        return et(0, e[0])
    if op in ("in", "dict"):
        items = [et(j, x) if op == "in" else "%r: %s" % (beta.key(x["k"]), et(j, x)) for j, x in enumerate(e)]
        o, c = ("[", "]") if op == "in" else ("{", "}")
        if items and beta.display == "trailing":
            return o + ", ".join(items) + "," + c
        if items and beta.display == "multiline":
            return o + "\n" + "".join("        %s,\n" % i for i in items) + "    " + c
        return o + ", ".join(items) + c
    raise ValueError(op)


def stmt_expr(beta: Beta, s, site_expr: str, reflect: bool, x_expr: str | None = None) -> str:
    x = x_expr or repr(beta.val(s["x"]))
    op = s["op"]
    S = site_expr
    if op in ("none", "chg", "raise"):
        return S
    if op == "eqbad":
        return f"{S} == _Bad()" if reflect else f"_Bad() == {S}"
    if op == "inbad":
        return f"_Bad() in {S}"
    if op == "eqnc":
        return f"{S} == _NoCopy()" if reflect else f"_NoCopy() == {S}"
    if op == "innc":
        return f"_NoCopy() in {S}"
    if op == "lebot":
        return f"{S} >= _Bot()" if reflect else f"_Bot() <= {S}"
    if op == "gebot":
        return f"{S} <= _Bot()" if reflect else f"_Bot() >= {S}"
    if op == "eq":
        return f"{S} == {x}" if reflect else f"{x} == {S}"
    if op == "le":
        return f"{S} >= {x}" if reflect else f"{x} <= {S}"
    if op == "ge":
        return f"{S} <= {x}" if reflect else f"{x} >= {S}"
    if op == "in":
        return f"{x} in {S}"
    k = repr(beta.key(s["k"]))
    if op == "dget":
        return f"{S}[{k}]"
    if op == "deq":
        return f"{S}[{k}] == {x}" if reflect else f"{x} == {S}[{k}]"
    if op == "dle":
        return f"{S}[{k}] >= {x}" if reflect else f"{x} <= {S}[{k}]"
    if op == "dge":
        return f"{S}[{k}] <= {x}" if reflect else f"{x} >= {S}[{k}]"
    raise ValueError(op)


HEADER = "from inline_snapshot import snapshot\nimport verif_rec as _r\n\n"
BOT = "class _Bot:\n    pass\n\n\n"
# a value whose deep copy is not equal to it (identity comparison)
BAD = "class _Bad:\n    def __repr__(self):\n        return '_Bad()'\n\n\n"
# a value that copy.deepcopy refuses (like objects holding a lock or a generator); it has a usable == and repr
NOCOPY = ("class _NoCopy:\n    items = ['live']\n\n    def __deepcopy__(self, memo):\n        raise TypeError('cannot pickle _NoCopy object')\n\n"
          "    def __eq__(self, other):\n        return True if isinstance(other, _NoCopy) else NotImplemented\n\n    __hash__ = None\n\n"
          "    def __repr__(self):\n        return '_NoCopy()'\n\n\n")
CHG_WRAPPER = "[{t}, {t2}][_chg[{i}]]"


def has_chg(prog, site=None):
    return any(s["op"] == "chg" and (site is None or s["site"] == site) for t in prog for s in t)


def render(ops, srcs, prog, beta: Beta, imp: bool, rng: random.Random, placement: str | None = None,
           mutate: bool = False, pre=None) -> str:
    """The test module for an abstract case.  Site i is reached through the expression ``s<i>()``.

    placements (imp = FALSE; every statement evaluates the call):
      func      def s1(): return snapshot(<src>)
      oneline   all calls on ONE line, each inside its own lambda
      samefunc  one function holding every call (same code object, different instruction offsets)
      nested    the functions are closures created by a factory
      param     a helper receives the snapshot as an argument:  _cmp(lambda s: x <= s, s1())
    imp = TRUE: the calls are evaluated once at import (module level), tests use the stored objects
    """
    n = len(ops)
    if imp:
        placement = "module"
    elif placement is None:
        placement = rng.choice(PLACEMENTS)
    for i in range(1, n + 1):
        if has_chg(prog, i):
            beta.site_wrapper[i] = CHG_WRAPPER
    out = [HEADER]
    if any(s["op"] in ("lebot", "gebot") for t in prog for s in t):
        out.append(BOT)
    if any(s["op"] in ("eqbad", "inbad") for t in prog for s in t):
        out.append(BAD)
    if any(s["op"] in ("eqnc", "innc") for t in prog for s in t):
        out.append(NOCOPY)
    if has_chg(prog):
        out.append("_chg = {%s}\n\n" % ", ".join("%d: 0" % i for i in range(1, n + 1)))
    texts = [src_text(beta, op, src, i) for i, (op, src) in enumerate(zip(ops, srcs), 1)]
    if placement == "module":
        for i, t in enumerate(texts, 1):
            out.append(f"_s{i} = snapshot({t})\n\n\ndef s{i}():\n    return _s{i}\n\n\n")
    elif placement == "oneline":
        out.append("_S = [" + ", ".join(f"lambda: snapshot({t})" for t in texts) + "]\n\n\n")
        for i in range(1, n + 1):
            out.append(f"def s{i}():\n    return _S[{i - 1}]()\n\n\n")
    elif placement == "samefunc":
        out.append("def _site(i):\n")
        for i, t in enumerate(texts, 1):
            out.append(f"    if i == {i}:\n        return snapshot({t})\n")
        out.append("\n\n")
        for i in range(1, n + 1):
            out.append(f"def s{i}():\n    return _site({i})\n\n\n")
    elif placement == "nested":
        out.append("def _make():\n")
        for i, t in enumerate(texts, 1):
            out.append(f"    def f{i}():\n        return snapshot({t})\n\n")
        out.append("    return [" + ", ".join(f"f{i}" for i in range(1, n + 1)) + "]\n\n\n")
        out.append("_F = _make()\n\n\n")
        for i in range(1, n + 1):
            out.append(f"def s{i}():\n    return _F[{i - 1}]()\n\n\n")
    else:
        for i, t in enumerate(texts, 1):
            out.append(f"def s{i}():\n    return snapshot({t})\n\n\n")
    if placement == "param":
        out.append("def _cmp(f, s):\n    return f(s)\n\n\n")
    if mutate:
        out.append("import copy as _copy\n\n\ndef _set(o, v):\n"
                   "    # in-place mutation of the compared object\n"
                   "    if isinstance(o, list):\n        o[:] = _copy.deepcopy(v)\n"
                   "    else:\n        o.clear()\n        o.update(_copy.deepcopy(v))\n    return o\n\n\n")
    # statements at module level (executed while the module is imported, outside of every test): their results are
    # recorded, never asserted
    for j, s in enumerate(pre or [], 1):
        e = stmt_expr(beta, s, f"s{s['site']}()", rng.random() < 0.5)
        out.append(f"with _r.at(0, {j}):\n    _r.val({e})\n\n\n")
    for ti, test in enumerate(prog, 1):
        out.append(f"def test_{ti}():\n")
        tup = beta.carrier == "tup"

        def mval(a):
            return beta.val(a)[1] if tup else beta.val(a)
        if mutate:
            out.append(f"    _o = _set({type(mval(0)).__name__}(), {mval(0)!r})\n")
        for j, s in enumerate(test, 1):
            refl = rng.random() < 0.5
            site = f"s{s['site']}()"
            xe = None
            if mutate and s["op"] not in ("none", "chg", "raise", "lebot", "gebot", "eqbad", "inbad", "eqnc", "innc", "dget"):
                out.append(f"    _set(_o, {mval(s['x'])!r})\n")
                xe = '("t", _o)' if tup else "_o"
            if xe is None and s["op"] == "in" and s["x"] in beta.twins and rng.random() < 0.5:
                xe = repr(beta.twins[s["x"]])
            if placement == "param" and s["op"] not in ("none", "chg", "raise"):
                e = "_cmp(lambda _s: %s, %s)" % (stmt_expr(beta, s, "_s", refl, xe), site)
            else:
                e = stmt_expr(beta, s, site, refl, xe)
            out.append(f"    with _r.at({ti}, {j}):\n")
            if s["op"] in ("none", "dget"):
                out.append(f"        {e}\n")
            elif s["op"] == "raise":
                out.append("        raise ValueError('raised by the test itself')\n")
            elif s["op"] == "chg":
                out.append(f"        _chg[{s['site']}] = 1\n        try:\n            {e}\n"
                           f"        finally:\n            _chg[{s['site']}] = 0\n")
            elif s["assert"]:
                out.append(f"        assert {e}\n")
            else:
                out.append(f"        _r.val({e})\n")
            if mutate and s["op"] not in ("none", "chg", "raise", "lebot", "gebot", "eqbad", "inbad", "eqnc", "innc", "dget"):
                # mutate the object that was just compared (the next comparison sets it again)
                out.append(f"    _set(_o, {mval((s['x'] + 1) % len(beta.atoms))!r})\n")
        out.append("\n\n")
    return "".join(out)


def _same(node, text):
    try:
        return ast.dump(node) == ast.dump(ast.parse(text, mode="eval").body)
    except SyntaxError:
        return False


def alpha_entry(beta: Beta, node, k=0, site=None):
    """abstract entry {k, v, canon} of an expression node, or {"alien": text}"""
    try:
        value = eval(compile(ast.Expression(node), "<alpha>", "eval"), {"_chg": {i: 0 for i in range(0, 10)}})
    except Exception as e:  # noqa
        return {"alien": "eval: %s" % type(e).__name__}
    a = beta.inv(value)
    if a is None:
        return {"alien": "value %r" % (value,)}
    if _same(node, beta.canon_text(a)) or (a in beta.twins and _same(node, repr(beta.twins[a]))):
        return {"k": k, "v": a, "canon": True}
    for w in {beta.wrapper, beta.site_wrapper.get(site, beta.wrapper)}:
        if _same(node, w.format(t=beta.canon_text(a), t2=beta.canon_text((a + 1) % len(beta.atoms)), i=site)):
            return {"k": k, "v": a, "canon": False}
    return {"alien": "text %s" % ast.unparse(node)}


def alpha_src(beta: Beta, op: str, arg_node, site=None):
    if arg_node is None:
        return {"def": False, "e": []}
    if op in ("eq", "le", "ge", "none"):
        return {"def": True, "e": [alpha_entry(beta, arg_node, 0, site)]}
    if op == "in":
        if not isinstance(arg_node, ast.List):
            return {"def": True, "e": [{"alien": "not a list: " + ast.unparse(arg_node)}]}
        return {"def": True, "e": [alpha_entry(beta, n, 0, site) for n in arg_node.elts]}
    if op == "dict":
        if not isinstance(arg_node, ast.Dict) or any(k is None for k in arg_node.keys):
            return {"def": True, "e": [{"alien": "not a dict: " + ast.unparse(arg_node)}]}
        es = []
        for kn, vn in zip(arg_node.keys, arg_node.values):
            try:
                kv = ast.literal_eval(kn)
            except Exception:  # noqa
                es.append({"alien": "key " + ast.unparse(kn)})
                continue
            k = beta.inv_key(kv)
            if k is None:
                es.append({"alien": "key %r" % (kv,)})
                continue
            es.append(alpha_entry(beta, vn, k, site))
        return {"def": True, "e": es}
    raise ValueError(op)


# ---------------------------------------------------------------------------------------------------
# file layouts (C03): attributes of the surrounding file that must not matter
LAYOUTS = ["ff", "ls", "nonascii", "tabs", "crlf", "cr", "nonl", "bom", "widechars", "comment-tail", "latin1", "latin1"]


def apply_layout(text: str, attrs, rng: random.Random) -> str:
    """re-layout a rendered module without changing its meaning"""
    if "latin1" in attrs:
        # a file with a PEP 263 declaration: stored in latin-1 (harness/srcio.py), with latin-1 text in a comment and
        # in a string; the layouts that need other characters outside of string literals are dropped
        attrs = [a for a in attrs if a not in ("bom", "ls", "nonascii", "widechars", "comment-tail")]
        text = text.replace("import verif_rec as _r\n", 'import verif_rec as _r\n\n# caf\xe9 \xa7 comment\n_l1 = "\xfc\xdf"\n', 1)
        text = "# -*- coding: latin-1 -*-\n" + text
    lines = text.split("\n")
    out = []
    for l in lines:
        if "nonascii" in attrs and l.lstrip().startswith("return snapshot("):
            ind = l[: len(l) - len(l.lstrip())]
            l = ind + '_u = "äöü—漢字😀"; ' + l.lstrip()
        if "widechars" in attrs and l.startswith("_s") and " = snapshot(" in l:
            l = '_ü = "𝔘😀𝔘"; ' + l
        if "comment-tail" in attrs and "snapshot(" in l and not l.rstrip().endswith(":"):
            l = l + "  # ← kept — comment ✓"
        out.append(l)
    text = "\n".join(out)
    if "ff" in attrs:
        text = text.replace("\ndef test_1", "\n\x0c\ndef test_1", 1).replace("\nimport verif_rec", "\n\x0c\nimport verif_rec", 1)
    if "ls" in attrs:
        text = text.replace("import verif_rec as _r\n", 'import verif_rec as _r\n\n# separators \u2028 inside \x85 a comment \x1c\n_z = "a\u2028b\x0bc\x1dd\u2029"\n', 1)
    if "tabs" in attrs:
        text = "\n".join(("\t" * ((len(l) - len(l.lstrip(" "))) // 4) + l.lstrip(" ")) if l.startswith("    ") else l
                         for l in text.split("\n"))
    if "nonl" in attrs:
        text = text.rstrip("\n")
    if "bom" in attrs:
        text = "\ufeff" + text
    if "crlf" in attrs:
        text = text.replace("\n", "\r\n")
    elif "cr" in attrs:
        text = text.replace("\n", "\r")
    if text.startswith("# -*- coding: latin-1 -*-"):
        # exactly the text that is on disk: what latin-1 cannot represent is written as an escape (the module only
        # holds such characters inside plain string literals)
        text = text.encode("latin-1", "backslashreplace").decode("latin-1")
    return text
