"""Common frame of every property check: tiers, seeds, evidence, known findings, verdict lines.

Exit status: 0 = the property held on everything explored (KNOWN-FINDING lines allowed),
             1 = at least one violation that known_findings.json does not list
                 (one line ``VIOLATION property=<id> replay=<path>`` each, at most MAX_REPORTED),
             2 = machinery failure (TLC error, driver crash, vacuous run) - never "holds".
"""
from __future__ import annotations

import json
import os
import sys
import time
import traceback
from pathlib import Path

ROOT = Path(__file__).resolve().parent.parent
EVIDENCE = ROOT / "evidence"
REPLAYS = EVIDENCE / "replays"
FINDINGS_FILE = ROOT / "known_findings.json"
MAX_REPORTED = 5


class MachineryError(Exception):
    pass


def load_findings():
    if FINDINGS_FILE.exists():
        return json.loads(FINDINGS_FILE.read_text())["findings"]
    return []


def _sig_match(sig: dict, pattern: dict) -> bool:
    for k, want in pattern.items():
        have = sig.get(k, None)
        if isinstance(want, dict) and "any_of" in want:
            if have not in want["any_of"]:
                return False
        elif isinstance(want, dict) and "contains" in want:
            if not isinstance(have, (list, str)) or want["contains"] not in have:
                return False
        elif isinstance(want, dict) and "subset_of" in want:
            if not isinstance(have, list) or not set(have) <= set(want["subset_of"]):
                return False
        elif isinstance(want, dict) and "intersects" in want:
            if not isinstance(have, list) or not (set(have) & set(want["intersects"])):
                return False
        elif have != want:
            return False
    return True


def overlap_kind(detail):
    """how the two replacements of SourceFile._check's AssertionError overlap: "identical" (the same range twice),
    "contained" (one strictly inside the other - nested call sites), "partial"; None if this is no overlap error"""
    import re
    if not (isinstance(detail, (list, tuple)) and len(detail) > 1 and "Replacement(" in str(detail[1])):
        return None
    pos = [(int(a), int(b)) for a, b in re.findall(r"lineno=(\d+), col_offset=(\d+)", str(detail[1]))]
    if len(pos) < 4:
        return "unknown"
    (s1, e1, s2, e2) = pos[:4]
    if (s1, e1) == (s2, e2):
        return "identical"
    if (s1 <= s2 and e2 <= e1) or (s2 <= s1 and e1 <= e2):
        return "contained"
    return "partial"


class Check:
    def __init__(self, pid: str, level: str, argv=None):
        self.pid = pid
        self.level = level
        self.t0 = time.time()
        args = list(sys.argv[1:] if argv is None else argv)
        self.tier = os.environ.get("VERIF_TIER", "quick")
        self.replay = None
        while args:
            a = args.pop(0)
            if a == "--tier":
                self.tier = args.pop(0)
            elif a == "--replay":
                self.replay = args.pop(0)
        if self.tier not in ("quick", "thorough"):
            self.tier = "quick"
        self.seed = int(os.environ.get("VERIF_SEED", "0") or 0)
        self.quick = self.tier == "quick"
        self.cov: dict = {"states": 0, "transitions": 0, "traces_validated_against_impl": 0,
                          "evaluations": 0, "distinct_nontrivial": 0, "samples": [], "tlc_runs": []}
        self.violations: list = []
        self.known_hits: dict = {}
        self.foreign: dict = {}
        self.assumptions: list = []
        self.nontrivial: set = set()
        self.findings = [f for f in load_findings() if f.get("property") == pid and f.get("status") == "known"]
        if os.environ.get("VERIF_IGNORE_KNOWN"):        # development aid: show what the known findings hide
            self.findings = []

    # ---- bookkeeping
    def add_tlc(self, res, label):
        self.cov["states"] += res.distinct
        self.cov["transitions"] += res.generated
        self.cov["tlc_runs"].append({"label": label, "distinct_states": res.distinct,
                                     "states_generated": res.generated, "depth": res.depth,
                                     "wall_s": round(res.wall_s, 1), "cmd": res.cmd,
                                     "coverage": {k: list(v) for k, v in res.coverage.items()} or None})

    def sample(self, s, limit=6):
        if len(self.cov["samples"]) < limit:
            self.cov["samples"].append(s)

    def count(self, n=1, nontrivial_key=None):
        self.cov["evaluations"] += n
        if nontrivial_key is not None:
            self.nontrivial.add(nontrivial_key)

    def validated(self, n=1):
        self.cov["traces_validated_against_impl"] += n

    def mismatch(self, clause: str, sig: dict, replay: dict, props=None):
        """A disagreement between specification and implementation.  It counts for this check when
        the clause belongs to this property, otherwise it is listed as foreign."""
        props = [self.pid] if props is None else props
        if not props:
            k = "%s(informational)" % clause
            self.foreign[k] = self.foreign.get(k, 0) + 1
            return
        if self.pid not in props:
            k = "%s(%s)" % (clause, ",".join(props))
            self.foreign[k] = self.foreign.get(k, 0) + 1
            return
        sig = dict(sig)
        sig.setdefault("clause", clause)
        for f in self.findings:
            if _sig_match(sig, f["signature"]):
                self.known_hits.setdefault(f["id"], [f, 0])[1] += 1
                return
        self.violations.append({"clause": clause, "sig": sig, "replay": replay})

    def spec_violation(self, res, label):
        self.violations.append({"clause": "spec:" + (res.violated or "?"), "sig": {"clause": "spec", "label": label},
                                "replay": {"kind": "tlc-counterexample", "label": label, "trace": res.trace}})

    # ---- the end
    def finish(self, rule: str, explanation: str = "", exhaustive: bool = False):
        self.cov["distinct_nontrivial"] = len(self.nontrivial)
        self.cov["rule"] = rule
        if explanation:
            self.cov["explanation"] = explanation
        self.cov["exhaustive"] = exhaustive
        self.cov["foreign_mismatches"] = self.foreign
        self.cov["known_findings_observed"] = {k: v[1] for k, v in self.known_hits.items()}
        rc = 0
        lines = []
        d0 = REPLAYS / self.pid
        if d0.exists():
            for old in d0.glob(self.tier + "_*.json"):
                old.unlink()
        if self.violations:
            rc = 1
            d = REPLAYS / self.pid
            d.mkdir(parents=True, exist_ok=True)
            seen = set()
            n = 0
            for v in self.violations:
                key = json.dumps(v["sig"], sort_keys=True, default=str)
                if key in seen:
                    continue
                seen.add(key)
                n += 1
                if n > MAX_REPORTED:
                    break
                p = d / ("%s_%s_%d.json" % (self.tier, v["clause"].replace(":", "_").replace("/", "_"), n))
                p.write_text(json.dumps({"property": self.pid, "seed": self.seed, "tier": self.tier, **v},
                                        indent=1, default=str))
                lines.append("VIOLATION property=%s replay=%s" % (self.pid, p))
            self.cov["violation_classes"] = len(seen)
            if os.environ.get("VERIF_VERBOSE"):
                import collections
                cl = collections.Counter(json.dumps({k: v for k, v in x["sig"].items() if k in ("clause", "ops", "F", "A", "exp", "got", "stmt_ops", "error", "overlap", "nested", "term_kind", "value_kind")}, sort_keys=True, default=str) for x in self.violations)
                for k, n in cl.most_common(25):
                    print("  class x%d: %s" % (n, k))
        for fid, (f, n) in sorted(self.known_hits.items()):
            lines.append("KNOWN-FINDING: property=%s %s: %s (observed %d times)" % (self.pid, fid, f["what"], n))
        ev = {"property_id": self.pid, "tier": self.tier, "seed": self.seed, "level": self.level,
              "coverage": self.cov, "assumptions": self.assumptions,
              "wall_s": round(time.time() - self.t0, 1), "violations": len(self.violations)}
        EVIDENCE.mkdir(exist_ok=True)
        (EVIDENCE / (self.pid + ".json")).write_text(json.dumps(ev, indent=1, default=str) + "\n")
        for l in lines:
            print(l)
        print("%s %s tier=%s seed=%d: %d evaluations, %d distinct non-trivial, %d violations, %d known-finding hits, %.0fs"
              % (self.pid, "FAIL" if rc else "ok", self.tier, self.seed, self.cov["evaluations"],
                 self.cov["distinct_nontrivial"], len(self.violations),
                 sum(v[1] for v in self.known_hits.values()), time.time() - self.t0))
        return rc


def main(run):
    """run(argv) -> exit status; wraps machinery failures into exit status 2."""
    try:
        rc = run()
    except MachineryError as e:
        print("MACHINERY-FAILURE: %s" % e)
        rc = 2
    except Exception:  # noqa
        traceback.print_exc()
        print("MACHINERY-FAILURE: unexpected exception in the harness")
        rc = 2
    sys.exit(rc)
