"""Spec -> code for the configuration space (spec/ISConfig.tla, MC_Config.tla): every emitted configuration is
set up for real (command line, environment variables, pyproject.toml, terminal, xdist, stdin answers) around
a project with one pending change per category, run as a real pytest session, and the categories that were
really applied are read off the files."""
from __future__ import annotations

import json
import random
import shutil
import tempfile
import zlib
from pathlib import Path

CATS = {1: "create", 2: "fix", 3: "trim", 4: "update"}
CI_NAMES = ["CI", "BUILD_ID", "BUILD_NUMBER", "BUILDKITE", "CIRCLECI", "CONTINUOUS_INTEGRATION", "GITHUB_ACTIONS",
            "HUDSON_URL", "JENKINS_URL", "TEAMCITY_VERSION", "TRAVIS", "bamboo.buildKey"]

TEST = '''from inline_snapshot import snapshot
import pytest


def test_create():
    assert 1 == snapshot()


def test_fix():
    assert 2 == snapshot(1)


def test_trim():
    assert 3 in snapshot([3, 4])


def test_update():
    assert 5 == snapshot(2 + 3)


@pytest.mark.xfail
def test_xfail():
    assert 6 == snapshot(7)
'''


def load_cases(out_dir: Path, seed: int, keep_every: int = 1):
    cases = []
    for f in sorted(out_dir.glob("cli_*.json")):
        for i, c in enumerate(json.loads(f.read_text())["cases"]):
            h = zlib.crc32(("%s|%d|%s" % (f.name, i, seed)).encode())
            if keep_every > 1 and h % keep_every:
                continue
            c["h"] = h
            c["id"] = "%s#%d" % (f.stem, i)
            cases.append(c)
    cases.sort(key=lambda c: c["h"])
    return cases


def applied_in(text):
    from . import inline_driver
    args = inline_driver.snapshot_args(text)
    srcs = [a[2] for a in args]
    out = set()
    if srcs[0] is not None:
        out.add("create")
    if srcs[1] != "1":
        out.add("fix")
    if srcs[2] != "[3, 4]":
        out.add("trim")
    if srcs[3] != "2 + 3":
        out.add("update")
    return out, srcs


def run_case(case, seed):
    from . import session_driver as sd
    rng = random.Random("%s|%s" % (case["id"], seed))
    d = Path(tempfile.mkdtemp(prefix="verif_cfg_"))
    try:
        (d / "test_cfg.py").write_text(TEST)
        # a persisted external that no test references: only an approved trim may remove it
        import hashlib
        ext = d / ".inline-snapshot" / "external"
        ext.mkdir(parents=True)
        data = b"persisted but unreferenced"
        ext_file = ext / (hashlib.sha256(data).hexdigest() + ".bin")
        ext_file.write_bytes(data)
        pp = []
        if case["pp"]["on"]:
            pp.append("default-flags = %s" % json.dumps(case["pp"]["f"]))
        if case["pptui"]["on"]:
            pp.append("default-flags-tui = %s" % json.dumps(case["pptui"]["f"]))
        if case["skipupd"]:
            pp.append("skip-snapshot-updates-for-now = true")
        has_pp = bool(pp) or rng.random() < 0.3
        # a shortcut of [tool.inline-snapshot.shortcuts] - a new name or a redefinition of a built-in one - that
        # stands for exactly the flags of the command line ("a shortcut option is the same as its flags")
        shortcut = None
        if has_pp and case["cli"]["on"] and case["cli"]["f"] and rng.random() < 0.35:
            shortcut = rng.choice(["fix", "review", "mine"])
        if has_pp:
            text = "[tool.inline-snapshot]\n" + "\n".join(pp) + "\n"
            if shortcut:
                text += "\n[tool.inline-snapshot.shortcuts]\n%s = %s\n" % (shortcut, json.dumps(sorted(case["cli"]["f"])))
            (d / "pyproject.toml").write_text(text)
        args = []
        if case["cli"]["on"]:
            f = list(case["cli"]["f"])
            rng.shuffle(f)
            # the shortcut options exist only when a pyproject.toml is present in the working directory
            if not has_pp:
                args.append("--inline-snapshot=" + ",".join(f))
            elif shortcut:
                args.append("--" + shortcut)
            elif sorted(f) == ["create", "fix"] and rng.random() < 0.5:
                args.append("--fix")                       # built-in shortcut
            elif f == ["review"] and rng.random() < 0.5:
                args.append("--review")
            else:
                args.append("--inline-snapshot=" + ",".join(f))
        env = {}
        if case["env"]["on"]:
            f = list(case["env"]["f"])
            rng.shuffle(f)
            env["INLINE_SNAPSHOT_DEFAULT_FLAGS"] = ",".join(f)
        if case["ci"]:
            env[rng.choice(CI_NAMES)] = rng.choice(["true", "1", "yes"])
        if case["pycharm"]:
            env["PYCHARM_HOSTED"] = "1"
        xd = case["xdist"]
        if xd != "no" or rng.random() < 0.3:
            args = ["-p", "xdist.plugin"] + args
        if xd == "n2":
            args += ["-n", "2"]
        elif xd == "n0":
            args += ["-n", "0"]
        yes = {CATS[c] for c in case["yes"]}
        answers = "".join(("y\n" if CATS[c] in yes else "n\n") for c in case["asked"]) + "n\n" * 4
        before = sd.snap_dir(d)
        r = sd.run_fork(d, args, env=env, stdin=answers.encode(), tty=bool(case["tty"]), timeout=120)
        after = sd.snap_dir(d)
        mism = []

        def mm(clause, detail):
            mism.append({"clause": clause, "props": ["C04"], "detail": detail, "id": case["id"]})
        if r["timed_out"]:
            mm("timeout", {})
            return mism, {"args": args, "env": env}
        text = (d / "test_cfg.py").read_text()
        try:
            got, srcs = applied_in(text)
        except Exception as e:  # noqa
            mm("unreadable", {"error": repr(e), "text": text})
            return mism, {"args": args, "env": env}
        exp = {CATS[c] for c in case["applied"]} | {CATS[c] for c in case["worker_applied"]}
        usage_error = r["rc"] == 4 or "usage error" in (r["stderr"] + r["stdout"]).lower() or "ERROR: --inline-snapshot" in r["stderr"]
        if bool(case["error"]) != usage_error:
            mm("usage-error", {"exp": case["error"], "got": usage_error, "rc": r["rc"], "stderr": r["stderr"][-300:]})
        if got != exp:
            mm("applied", {"exp": sorted(exp), "got": sorted(got), "approved_by_user": [CATS[c] for c in case["approved"]],
                           "srcs": srcs, "rc": r["rc"]})
        if srcs[4] != "7":
            mm("xfail-rewritten", {"src": srcs[4]})
        if ext_file.exists() == bool(case.get("ext_removed", False)):
            mm("external", {"exp_removed": case.get("ext_removed"), "still_there": ext_file.exists(),
                            "approved_by_user": [CATS[c] for c in case["approved"]]})
        if not exp and not case.get("ext_removed"):
            changed = {k for k in set(before) | set(after) if before.get(k) != after.get(k)
                       and not k.startswith(".inline-snapshot/external/.gitignore")}
            if changed:
                mm("not-inert", {"changed": sorted(changed)})
        conf = (r.get("session") or {}).get("configure") or {}
        if not case["error"] and conf and "active" in conf:
            if conf["active"] != case["active"]:
                mm("active", {"exp": case["active"], "got": conf["active"]})
            elif sorted(conf.get("update_flags", [])) != sorted(CATS[c] for c in case["U"]):
                mm("comparison-flags", {"exp": [CATS[c] for c in case["U"]], "got": conf.get("update_flags")})
        info = {"args": args, "env": env, "tty": case["tty"], "stdin": answers, "pyproject": pp,
                "applied": sorted(got), "rc": r["rc"]}
        if mism:
            info["stdout"] = r["stdout"][-2500:]
            info["stderr"] = r["stderr"][-800:]
        return mism, info
    finally:
        shutil.rmtree(d, ignore_errors=True)


def _worker(args):
    cases, seed = args
    out = []
    for c in cases:
        try:
            mism, info = run_case(c, seed)
            out.append({"id": c["id"], "mism": mism, "info": info})
        except Exception:  # noqa
            import traceback
            out.append({"id": c["id"], "error": traceback.format_exc()[-1500:]})
    return out
