"""Spec -> code for spec/ISPartial.tla: every terminal state of the bounded model (one `==` call site, compared
several times in a session with values whose entries may raise when they are compared) is rendered as a test module,
executed by the real code, and the observed answers / counters / pending category / rewritten source / completion of
the session end are compared with the state the specification reached."""
from __future__ import annotations

import ast
import json
import random
import zlib
from pathlib import Path

BOOM = 99
POOLS = [[3, 17, -4], ["x", "yy", ""], [1.5, 2, 0], [(1,), (2, 3), ()], [None, True, 7]]
KEYS = [["a", "b", "c"], [1, 2, 3], [("k", 1), ("k", 2), "z"]]

HEAD = '''from inline_snapshot import snapshot
import verif_rec as _r


class _BoomError(Exception):
    pass


class _Boom:
    # equal to its own copies, comparing it with anything else raises
    def __eq__(self, other):
        if type(other) is not _Boom:
            raise _BoomError("foreign type")
        return True

    def __repr__(self):
        return "_Boom()"


'''


def load_cases(out_dir: Path, seed: int):
    cases = []
    for f in sorted(out_dir.glob("case_*.json")):
        c = json.loads(f.read_text())
        c["h"] = zlib.crc32(("%s|%s" % (c["id"], seed)).encode())
        cases.append(c)
    cases.sort(key=lambda c: c["h"])
    return cases


class Gamma:
    def __init__(self, rng: random.Random, k: int, seqlike: bool):
        self.atoms = rng.choice(POOLS)
        self.keys = rng.choice(KEYS)[:k]
        self.carrier = "list" if seqlike else "dict"
        self.placement = rng.choice(["func", "module", "lambda"])
        self.reflect = rng.random() < 0.5
        self.asserted = rng.random() < 0.5

    def elem(self, x):
        return "_Boom()" if x == BOOM else repr(self.atoms[x])

    def value(self, v):
        if self.carrier == "dict":
            return "{" + ", ".join("%r: %s" % (k, self.elem(x)) for k, x in zip(self.keys, v)) + "}"
        return "[" + ", ".join(self.elem(x) for x in v) + "]"

    def concrete(self, v):
        if self.carrier == "dict":
            return {k: self.atoms[x] for k, x in zip(self.keys, v)}
        return [self.atoms[x] for x in v]


def render(case, g: Gamma) -> str:
    out = [HEAD]
    src = g.value(case["old"])
    if g.placement == "func":
        out.append("def _site():\n    return snapshot(%s)\n\n\n" % src)
    elif g.placement == "module":
        out.append("_S = snapshot(%s)\n\n\ndef _site():\n    return _S\n\n\n" % src)
    else:
        out.append("_site = lambda: snapshot(%s)\n\n\n" % src)
    for c, v in enumerate(case["cmps"], 1):
        e = "_site() == %s" % g.value(v) if g.reflect else "%s == _site()" % g.value(v)
        if g.asserted:
            out.append("def test_%d():\n    with _r.at(%d, 1):\n        assert %s\n\n\n" % (c, c, e))
        else:
            out.append("def test_%d():\n    with _r.at(%d, 1):\n        _r.val(%s)\n\n\n" % (c, c, e))
    # an independent call site (C14: nothing computed for one site leaks into another): an empty snapshot that is
    # compared once after all the others - its `create` must be pending whatever happened before
    out.append("def test_witness():\n    with _r.at(%d, 1):\n        _r.val(%s == snapshot())\n\n\n"
               % (len(case["cmps"]) + 1, g.elem(0)))
    return "".join(out)


def replay_one(case, seed):
    from . import inline_driver
    rng = random.Random("%s|%s" % (case["id"], seed))
    g = Gamma(rng, len(case["old"]), case["seqlike"])
    text = render(case, g)
    flags = ["fix"] if case["fix"] else []
    obs = inline_driver.run_session({"test_case.py": text}, flags, per_test_reset=True)
    mism = []

    def mm(clause, props, detail):
        mism.append({"clause": clause, "props": props, "detail": detail})
    info = {"atoms": g.atoms, "keys": g.keys, "carrier": g.carrier, "placement": g.placement, "flags": flags}
    if obs.get("import_error"):
        mm("import", ["C18"], obs["import_error"])
        return mism, info, text, None
    new_text = obs["files"].get("test_case.py")
    if obs.get("finish_error"):
        if not case["err"]:
            mm("finish", ["C18"], obs["finish_error"][:2])
        return mism, info, text, new_text
    if case["err"]:
        mm("finish-expected", [], "the model predicts a failing session end")
    # --- what every test was answered
    got = [x[2] for x in obs["log"]]
    want = [{"EX": "_BoomError"}.get(r, r) for r in case["res"]]
    wit = got[len(want):]
    got = got[:len(want)]
    cats_all = sorted(obs.get("categories", []))
    if wit != ["T"] or "create" not in cats_all or not obs["tests"][-1]["missing"]:
        mm("witness", ["C14"], {"answer": wit, "categories": cats_all, "missing": obs["tests"][-1]["missing"]})
    if got != want:
        mm("res", ["C07", "C06"] if not case["fix"] else ["C07", "C02"], {"exp": want, "got": got})
    # --- the failure counters of the tests
    inc = [1 if t["incorrect"] else 0 for t in obs["tests"][:-1]]
    if inc != case["inc"]:
        mm("inc", ["C07"], {"exp": case["inc"], "got": inc})
    # --- pending category
    cats = [c for c in cats_all if c != "create"]
    if cats != (["fix"] if case["pending"] else []):
        mm("cats", ["C05", "C18"], {"exp": ["fix"] if case["pending"] else [], "got": cats})
    # --- the source after the session
    try:
        args = inline_driver.snapshot_args(new_text)
        val = ast.literal_eval(args[0][3])
    except Exception as e:  # noqa
        mm("syntax", ["C03", "C18"], repr(e)[:200])
        return mism, info, text, new_text
    want_v = g.concrete(case["final"])
    if not (val == want_v and type(val) is type(want_v) and (g.carrier != "dict" or list(val) == list(want_v))):
        mm("final", ["C02", "C18"] if case["fix"] else ["C04"], {"exp": repr(want_v), "got": args[0][2]})
    return mism, info, text, new_text


def _worker(args):
    cases, seed = args
    import contextlib
    import io
    out = []
    for case in cases:
        try:
            with contextlib.redirect_stderr(io.StringIO()):
                mism, info, text, new = replay_one(case, seed)
            out.append({"id": case["id"], "mism": mism, "info": info, "text": text if mism else None,
                        "new": new if mism else None})
        except Exception:  # noqa
            import traceback
            out.append({"id": case["id"], "error": traceback.format_exc()[-2000:]})
    return out


def run(chk, k=2, max_cmp=3, stride=1):
    """model-check ISPartial (both the coded design and the design alternative), emit the terminal states and
    replay them"""
    from . import pool, tlc
    from .checklib import MachineryError, overlap_kind
    consts = {"K": k, "MaxCmp": max_cmp}
    # the design alternative must be refuted by the model checker (the invariants are sensitive to the reset)
    neg = tlc.run_tlc("MC_Partial", "Partial_noreset.cfg", overrides=dict(consts, Mode="mc"), workers=8, timeout=600)
    chk.add_tlc(neg, "mc Partial_noreset (design alternative, expected to fail: %s)" % neg.violated)
    tlc.cleanup(neg)
    if neg.ok:
        raise MachineryError("ISPartial: the design alternative ResetOnAttempt = FALSE is not refuted")
    res = tlc.run_tlc("MC_Partial", "Partial.cfg", overrides=dict(consts, Mode="emit", Stride=stride,
                                                                  Offset=chk.seed % stride), workers=16, timeout=1500)
    chk.add_tlc(res, "mc+emit Partial (K=%d, MaxCmp=%d)" % (k, max_cmp))
    try:
        if not res.ok:
            chk.spec_violation(res, "mc Partial")
            return
        cases = load_cases(res.out_dir, chk.seed)
    finally:
        tlc.cleanup(res)
    if not cases:
        raise MachineryError("no cases emitted by MC_Partial")
    by_id = {c["id"]: c for c in cases}
    results = pool.parallel_map(_worker, [(c, chk.seed) for c in pool.chunks(cases, 60)])
    errors = 0
    for chunk in results:
        for r in chunk:
            case = by_id[r["id"]]
            if "error" in r:
                errors += 1
                if errors <= 3:
                    print("driver error on partial case %s:\n%s" % (r["id"], r["error"]))
                continue
            raised = "EX" in case["res"]
            chk.count(1, "partial%s" % r["id"] if raised or case["pending"] else None)
            chk.validated(1)
            if raised and case["pending"] and case["attempts"] >= 2 and case["h"] % 13 == 0:
                chk.sample({"kind": "spec->code replay (ISPartial terminal state)", "old": case["old"], "compared": case["cmps"],
                            "fix": case["fix"], "expected": {k2: case[k2] for k2 in ("res", "inc", "pending", "final")},
                            "concretisation": r["info"]}, limit=8)
            for m in r["mism"]:
                det = m["detail"]
                chk.mismatch(m["clause"], {"clause": m["clause"], "model": "partial", "fix": case["fix"],
                                           "error": det[0] if isinstance(det, list) and det else None,
                                           "overlap": overlap_kind(det), "nested": False,
                                           "attempts": case["attempts"], "carrier": r["info"]["carrier"]},
                             {"kind": "partial-case", "case": case, "seed": chk.seed, "mismatch": m,
                              "module": r["text"], "module_after": r["new"], "concretisation": r["info"]},
                             props=m["props"])
    if errors:
        raise MachineryError("%d partial replay jobs crashed in the harness" % errors)
