"""Code -> spec for the per-site core (spec/TraceCore.tla): seeded random test programs BEYOND the bounds that
TLC enumerates (up to 4 sites, 3 tests, 6 statements per test, 6 atoms) are executed by the real code, every
executed statement and the end of the session are recorded as a trace, and TLC validates all traces of a batch
against ISCore - stepping the specification along the events and comparing every observation."""
from __future__ import annotations

import json
import random
import re

CATS = ["create", "fix", "trim", "update"]
NATOMS = 6


def gen_case(rng: random.Random):
    nsites = rng.choice([1, 2, 2, 3, 4])
    ops, srcs = [], []
    for _ in range(nsites):
        op = rng.choice(["eq", "le", "ge", "in", "in", "dict", "dict", "none"])
        ops.append(op)
        if rng.random() < 0.25:
            srcs.append({"def": False, "e": []})
        elif op in ("eq", "le", "ge", "none"):
            srcs.append({"def": True, "e": [{"k": 0, "v": rng.randrange(NATOMS), "canon": rng.random() < 0.6}]})
        elif op == "in":
            vs = rng.sample(range(NATOMS), rng.randrange(0, 5))
            srcs.append({"def": True, "e": [{"k": 0, "v": v, "canon": rng.random() < 0.6} for v in vs]})
        else:
            ks = rng.sample([1, 2, 3], rng.randrange(0, 4))
            srcs.append({"def": True, "e": [{"k": k, "v": rng.randrange(NATOMS), "canon": rng.random() < 0.6} for k in ks]})
    prog = []
    for t in range(rng.choice([1, 2, 2, 3])):
        test = []
        used = set()
        for _ in range(rng.randrange(1, 7)):
            i = rng.randrange(nsites)
            op = ops[i]
            r = rng.random()
            s = {"site": i + 1, "assert": rng.random() < 0.4, "k": 0, "x": rng.randrange(NATOMS)}
            if r < 0.05:
                s.update(op="raise", assert_=False)
                s["assert"] = False
            elif op == "none":
                s.update(op="none", x=0)
                s["assert"] = False
            elif r < 0.10 and op in ("le", "ge") and srcs[i]["def"]:
                s.update(op=op + "bot", x=0)
                s["assert"] = True
            elif r < 0.14 and op in ("eq", "in"):
                s.update(op=op + rng.choice(["bad", "nc"]), x=0)
                s["assert"] = True
            elif r < 0.20 and i in used and op != "none":
                wrong = rng.choice([w for w in ("eq", "in", "le") if w != op and not (op == "dict" and False)])
                s.update(op=wrong)
                s["assert"] = False
            elif op == "dict":
                s.update(op=rng.choice(["deq", "deq", "dle", "dge", "dget"]), k=rng.choice([1, 2, 3]))
                if s["op"] == "dget":
                    s.update(x=0)
                    s["assert"] = False
            else:
                s.update(op=op)
            s.pop("assert_", None)
            if s["op"] not in ("raise", "none") and not s["op"].endswith(("bot", "bad", "nc")) and \
                    (s["op"] == op or (op == "dict" and s["op"] in ("deq", "dle", "dge", "dget"))):
                used.add(i)
            test.append(s)
        prog.append(test)
    F = [c for c in CATS if rng.random() < 0.4]
    # comparisons at module level (outside of every test), never asserted: no test may be charged for them
    pre = []
    if rng.random() < 0.3:
        for _ in range(rng.randrange(1, 3)):
            i = rng.randrange(nsites)
            if ops[i] in ("eq", "le", "ge", "in"):
                pre.append({"site": i + 1, "assert": False, "k": 0, "x": rng.randrange(NATOMS), "op": ops[i]})
    return {"ops": ops, "srcs": srcs, "prog": prog, "F": F, "imp": rng.random() < 0.3, "pre": pre}


def run_case(args, second=False, session=False):
    """execute one generated case and return its trace (or a harness-level problem); second = the same session
    again on the file the first one wrote (its trace starts from the sources observed after the first)"""
    case, seed = args
    from . import inline_driver, render_core
    rng = random.Random("%s|%s" % (json.dumps(case, sort_keys=True), seed))
    ops, srcs, prog = case["ops"], case["srcs"], case["prog"]
    beta = render_core.Beta(rng, NATOMS, ops, render_core.needs_order(ops, prog))
    pre = case.get("pre") or []
    text = render_core.render(ops, srcs, prog, beta, case["imp"], rng, pre=pre)
    if second:
        first = run_case(args)
        if first.get("problem") or any(e.get("v") == 99 for a in first["trace"]["after"] for e in a["e"]):
            return None
        text, srcs = first["new"], first["trace"]["after"]
    if session:
        # a real pytest session of the plugin (its fixture charges the counters to the tests)
        from . import core_replay
        obs = core_replay.session_run(text, case["F"], rng)
    else:
        obs = inline_driver.run_session({"test_case.py": text}, case["F"])
    if obs.get("import_error") or obs.get("finish_error"):
        return {"case": case, "text": text, "problem": ["finish", obs.get("import_error") or obs.get("finish_error")[:2]]}
    events = []
    for t, j, res in obs["log"]:
        s = pre[j - 1] if t == 0 else prog[t - 1][j - 1]
        res = {"ValueError": "EX", "UsageError": "UE"}.get(res, res)
        if s["op"] in ("none", "chg", "dget") and res == "T":
            res = "-"
        events.append({"t": t, "site": s["site"], "op": s["op"], "k": s["k"], "x": s["x"], "assert": s["assert"], "res": res})
    failed = [bool(tr["exc"] or tr["missing"] or tr["incorrect"]) for tr in obs["tests"]]
    if session and len(failed) != len(prog):
        return {"case": case, "text": text, "problem": ["finish", ["tests-lost", str(len(failed))]]}
    orig = inline_driver.snapshot_args(text)
    line_to_site = {"test_case.py:%d:%d" % (l, c): i for i, (l, c, _, _) in enumerate(orig, 1)}
    pend = [[] for _ in ops]
    for key, cats in (obs["sites"] or {}).items():
        if key in line_to_site:
            pend[line_to_site[key] - 1] = cats
    try:
        new = inline_driver.snapshot_args(obs["files"]["test_case.py"])
    except SyntaxError as e:
        return {"case": case, "text": text, "problem": ["syntax", str(e)]}
    if len(new) != len(ops):
        return {"case": case, "text": text, "problem": ["sites-lost", len(new)]}
    after = []
    for i, op in enumerate(ops, 1):
        a = render_core.alpha_src(beta, op, new[i - 1][3], i)
        a["e"] = [x if "alien" not in x else {"k": 0, "v": 99, "canon": False} for x in a["e"]]
        after.append(a)
    trace = {"srcs": srcs, "U": case["F"], "A": case["F"], "imp": case["imp"], "ntests": len(prog), "events": events,
             "failed": failed, "pending": pend, "after": after}
    return {"case": case, "text": text, "new": obs["files"]["test_case.py"], "trace": trace, "problem": None,
            "second": second, "session": session, "rewritten": obs["files"]["test_case.py"] != text}


def validate(chk, n, flags="any", cases=None, second=0.0, sessions=0):
    """generate n cases, execute them, validate the traces with TLC; mismatches go to chk
    flags: "any" = a random approved set per case, "none" = nothing approved (C06)"""
    from . import pool, tlc
    from .checklib import MachineryError
    rng = random.Random(chk.seed * 7919 + 13)
    if cases is None:
        cases = [gen_case(rng) for _ in range(n)]
        if flags == "none":
            for c in cases:
                c["F"] = []
    results = []
    jobs = [(c, chk.seed, False) for c in pool.chunks(cases, 25)]
    if second:
        # histories: the same session a second time (a fraction `second` of the cases)
        again = [c for c in cases if c["F"] and rng.random() < second]
        jobs += [(c, chk.seed, True) for c in pool.chunks(again, 25)]
    if sessions:
        # a sample as real sessions (cases with comparisons at module level first)
        from . import session_driver
        session_driver.preload()
        cand = sorted(cases, key=lambda c: (not c.get("pre"), ))[:sessions]
        jobs += [(c, chk.seed, "session") for c in pool.chunks(cand, 5)]
    for out in pool.parallel_map(_worker, jobs):
        results += [r for r in out if r is not None]
    good = [r for r in results if r.get("problem") is None and "error" not in r]
    for r in results:
        if "error" in r:
            raise MachineryError("trace generation crashed: " + r["error"])
        if r["problem"]:
            cl, det = r["problem"]
            chk.mismatch(cl, {"clause": cl, "source": "trace"}, {"kind": "trace-case", "case": r["case"], "seed": chk.seed, "module": r["text"], "problem": det},
                         props=["C18"] if cl == "finish" else ["C03"])
    batch = {"traces": [r["trace"] for r in good]}
    res = tlc.run_tlc("TraceCore", "TraceCore.cfg", workers=1, timeout=1200,
                      extra_files={"traces.json": json.dumps(batch)}, env={"TRACE_FILE": "traces.json"})
    chk.add_tlc(res, "trace validation TraceCore (%d recorded executions beyond the bounds)" % len(good))
    verdicts = {}
    # (TLC wraps long values over several lines and then writes `<< "VERDICT",`)
    flat = re.sub(r"\s+", " ", res.stdout).replace("<< ", "<<").replace(" >>", ">>")
    for line in flat.split('<<"VERDICT", ')[1:]:
        m = re.match(r"(\d+), (TRUE|FALSE), (TRUE|FALSE), (TRUE|FALSE), (TRUE|FALSE), (.*)", line)
        if m:
            verdicts[int(m.group(1))] = ([x == "TRUE" for x in m.groups()[1:5]], re.split(r" (Model checking|Progress\(|Checkpointing|Finished)", m.group(6))[0][:300])
    tlc.cleanup(res)
    if len(verdicts) != len(good):
        raise MachineryError("TraceCore gave %d verdicts for %d traces:\n%s" % (len(verdicts), len(good), res.raw_tail[-1500:]))
    first_src_ok = {json.dumps(r["case"], sort_keys=True): verdicts[tid][0][3]
                    for tid, r in enumerate(good, 1) if not r["second"]}
    for tid, r in enumerate(good, 1):
        (res_ok, failed_ok, pend_ok, src_ok), detail = verdicts[tid]
        F = r["case"]["F"]
        tr = r["trace"]
        nontrivial = any(tr["failed"]) or any(tr["pending"]) or any(e["res"] in ("TE", "UE") for e in tr["events"])
        chk.count(1, "trace|%d" % tid if nontrivial else None)
        chk.validated(1)
        rp = {"kind": "trace-case", "case": r["case"], "seed": chk.seed, "second": r["second"], "session": r.get("session"), "module": r["text"], "module_after": r["new"], "trace": r["trace"], "tlc": detail}
        if not res_ok:
            chk.mismatch("trace-result", {"clause": "trace-result", "F": F}, rp, props=(["C06"] if not F else ["C07", "C02"]) + ["C14", "C17", "C18"])
        if not failed_ok:
            chk.mismatch("trace-failed", {"clause": "trace-failed", "F": F}, rp, props=["C07"] + ([] if F else ["C06"]))
        if not pend_ok and not r.get("session"):
            chk.mismatch("trace-pending", {"clause": "trace-pending", "F": F}, rp, props=["C05", "C14"])
        if not src_ok:
            chk.mismatch("trace-newsrc", {"clause": "trace-newsrc", "F": F, "second": r["second"]}, rp,
                         props=["C05", "C14"] + (["C04"] if not F else []) + (["C08"] if r["second"] else []))
        elif r["second"] and r["rewritten"]:
            if first_src_ok.get(json.dumps(r["case"], sort_keys=True), True):
                # the model itself predicts that the second identical session changes the file
                chk.mismatch("model-second-run-writes", {"clause": "model-second-run-writes", "F": F}, rp, props=[])
            else:
                # the first session did not write what the model says (reported for C05), and the second identical
                # session writes again: the first run was no fixed point
                chk.mismatch("second-run-writes", {"clause": "second-run-writes", "F": F, "source": "trace"}, rp, props=["C08"])
    if good and len(chk.cov["samples"]) < 8:
        chk.sample({"kind": "code->spec trace (beyond bounds)", "case": good[0]["case"], "events": good[0]["trace"]["events"][:6],
                    "observed_end": {k: good[0]["trace"][k] for k in ("failed", "pending", "after")}})


def _worker(args):
    cases, seed, second = args
    out = []
    for c in cases:
        try:
            out.append(run_case((c, seed), second is True, session=second == "session"))
        except Exception:  # noqa
            import traceback
            out.append({"error": traceback.format_exc()[-1500:]})
    return out
