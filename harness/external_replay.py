"""Spec -> code for external storage (spec/ISExternal.tla): histories produced by `tlc -simulate` on the
history-recording variant of the specification are replayed on a real project directory - edits of the test
files are done by the harness, sessions are real pytest sessions of the plugin - and after every step the
storage directory and the references in the test files are compared with the specification's post-state."""
from __future__ import annotations

import hashlib
import json
import random
import re
import shutil
import tempfile
import zlib
from pathlib import Path


def load_histories(out_dir: Path, seed: int, limit: int):
    hs = []
    seen = set()
    for f in sorted(out_dir.glob("hist_*.json")):
        t = f.read_text()
        k = zlib.crc32(t.encode())
        if k in seen:
            continue
        seen.add(k)
        d = json.loads(t)
        # a history is interesting when at least one session runs on an existing test file
        ex = False
        ok = False
        for st in d["hist"]:
            if st["a"] == "session" and ex:
                ok = True
            ex = any(st["post"]["exists"].values())
        if ok:
            d["h"] = zlib.crc32(("%s|%s" % (k, seed)).encode())
            d["id"] = f.stem
            hs.append(d)
    hs.sort(key=lambda d: d["h"])
    return hs[:limit]


def pick_data(rng, collide: bool, hash_length: int, suffix: str, as_bytes: bool):
    """concrete contents for d1, d2, d3 (d1/d2 sharing the first hash_length digits when collide)"""
    def H(c):
        return hashlib.sha256(c).hexdigest()
    base = rng.randrange(10 ** 6)
    cands = [("payload-%d-%d\n" % (base, i)).encode() * rng.choice([1, 3]) for i in range(4000)]
    d1 = cands[0]
    d2 = None
    for c in cands[1:]:
        same = H(c)[:hash_length] == H(d1)[:hash_length]
        if same == collide:
            d2 = c
            break
    d3 = next(c for c in cands[1:] if c != d2 and H(c)[:hash_length] not in (H(d1)[:hash_length], H(d2)[:hash_length]))
    return {"d1": d1, "d2": d2, "d3": d3}


TEMPLATE = '''from inline_snapshot import snapshot, outsource


def test_{f}():
    assert outsource({content}{sfx}) == snapshot({arg})
'''


def replay_history(hist, seed, collide=False):
    from . import session_driver as sd
    rng = random.Random("%s|%s" % (hist["id"], seed))
    as_bytes = rng.random() < 0.4
    suffix = rng.choice([None, ".png", ".json"]) if as_bytes else rng.choice([None, ".txt", ".log"])
    hash_length = 1 if collide else rng.choice([12, 12, 6, 20, 64])
    storage_dir = rng.choice([None, None, "snaps", "sub/dir"])
    contents = pick_data(rng, collide, hash_length, suffix, as_bytes)
    real_suffix = suffix or (".bin" if as_bytes else ".txt")
    hashes = {d: hashlib.sha256(c).hexdigest() for d, c in contents.items()}
    proj = Path(tempfile.mkdtemp(prefix="verif_ext_"))
    mism = []
    steps_done = []

    def mm(clause, step, detail):
        mism.append({"clause": clause, "props": ["C13", "C18"] if clause == "session-error" else ["C13"], "step": step,
                     "detail": detail, "id": hist["id"]})
    try:
        pp = ["[tool.inline-snapshot]"]
        if hash_length != 12:
            pp.append("hash-length = %d" % hash_length)
        if storage_dir:
            pp.append('storage-dir = "%s"' % storage_dir)
        (proj / "pyproject.toml").write_text("\n".join(pp) + "\n")
        ext_dir = (proj / storage_dir if storage_dir else proj / ".inline-snapshot") / "external"

        def lit(d):
            c = contents[d]
            return repr(c) if as_bytes else repr(c.decode())

        def path_of(f):
            return proj / ("test_%s.py" % f)

        def write(f, d, arg_text):
            path_of(f).write_text(TEMPLATE.format(f=f, content=lit(d), sfx=(", suffix=%r" % suffix) if suffix else "", arg=arg_text))

        def read_arg(f):
            from . import inline_driver
            a = inline_driver.snapshot_args(path_of(f).read_text())
            return a[0][2]

        def abstract_arg(text):
            if text is None:
                return "none"
            m = re.fullmatch(r'external\("([0-9a-f]*)(\*?)(\.[a-zA-Z0-9]*)"\)', text)
            if not m:
                return "alien:" + text
            pre = m.group(1)
            ds = [d for d, h in hashes.items() if h.startswith(pre)]
            if m.group(3) != real_suffix:
                return "alien-suffix:" + text
            return ds[0] if ds else "alien:" + text

        def listing():
            st = {d: "absent" for d in contents}
            extra = []
            if ext_dir.exists():
                for p in ext_dir.iterdir():
                    if p.name == ".gitignore":
                        continue
                    m = re.fullmatch(r"([0-9a-f]{64})(-new)?(\.[A-Za-z0-9]+)", p.name)
                    if not m:
                        extra.append(p.name)
                        continue
                    if hashlib.sha256(p.read_bytes()).hexdigest() != m.group(1):
                        mm("content-address", len(steps_done), {"file": p.name})
                    ds = [d for d, h in hashes.items() if h == m.group(1)]
                    if not ds or m.group(3) != real_suffix:
                        extra.append(p.name)
                        continue
                    if p.read_bytes() != contents[ds[0]]:
                        mm("content", len(steps_done), {"file": p.name})
                    st[ds[0]] = "new" if m.group(2) else "kept"
            return st, extra

        prev_store = {d: "absent" for d in contents}
        prev_refs = {}
        for k, st in enumerate(hist["hist"], 1):
            a = st["a"]
            post = st["post"]
            if a == "add":
                write(st["f"], st["d"], "")
            elif a == "edit":
                cur = read_arg(st["f"])
                write(st["f"], st["d"], cur or "")
                # keep the import of `external` that the tool added (the harness rewrites the whole file)
                if cur:
                    t = path_of(st["f"]).read_text()
                    path_of(st["f"]).write_text(t.replace("from inline_snapshot import snapshot, outsource",
                                                          "from inline_snapshot import snapshot, outsource\nfrom inline_snapshot import external"))
            elif a == "remove":
                path_of(st["f"]).unlink()
            else:
                flags = list(st["F"])
                rng.shuffle(flags)
                if st["review"]:
                    flags.append("review")
                args = ["--inline-snapshot=" + ",".join(flags)] if flags else rng.choice([[], ["--inline-snapshot=report"]])
                # pending categories in this session, in the order the tool asks
                files = [f for f, e in hist["hist"][k - 2]["post"]["exists"].items() if e] if k > 1 else []
                pend = set()
                for f in files:
                    cur = abstract_arg(read_arg(f))
                    dcur = hist["hist"][k - 2]["post"]["data"][f]
                    if cur == "none":
                        pend.add("create")
                    elif hashes.get(cur, "x")[:hash_length] != hashes[dcur][:hash_length]:
                        pend.add("fix")
                asked = [c for c in ("create", "fix", "trim", "update") if c in pend and c not in st["F"]]
                answers = "".join("y\n" if c in st["yes"] else "n\n" for c in asked) + "n\n" * 3
                r = sd.run_fork(proj, args, stdin=answers.encode() if st["review"] else b"", tty=True if st["review"] else None)
                if r["timed_out"] or r["rc"] not in (0, 1, 5):
                    mm("session-error", k, {"rc": r["rc"], "stdout": r["stdout"][-1500:], "stderr": r["stderr"][-500:]})
                    break
                conf = (r.get("session") or {}).get("configure") or {}
                if conf.get("storage_listing") is not None:
                    left_new = [n for n in conf["storage_listing"] if "-new." in n]
                    if left_new:
                        mm("prune", k, {"survived_start": left_new})
            steps_done.append(a)
            got_store, extra = listing()
            if extra:
                mm("foreign-file", k, {"files": extra})
            # --- the clauses of C13, judged on the real directory (the spec's post-state is the expectation, a
            #     difference that touches none of the clauses - e.g. an unreferenced -new file that is already
            #     gone - is recorded as drift only)
            refs_now = {}
            for f, e in post["exists"].items():
                if e:
                    refs_now[f] = abstract_arg(read_arg(f))
            approved_trim = a == "session" and ("trim" in st["F"] or (st["review"] and "trim" in st["yes"]))
            part = [f for f, e in post["exists"].items() if e] if a == "session" else []
            for d in contents:
                g, p0 = got_store[d], prev_store[d]
                cls = lambda x: hashes[x][:hash_length] if x in hashes else None
                if g == "kept" and p0 != "kept":
                    wrote = any(cls(refs_now.get(f)) == cls(d) and refs_now.get(f) != prev_refs.get(f) for f in refs_now)
                    if not wrote:
                        mm("persisted-without-reference", k, {"datum": d, "refs": refs_now, "action": a})
                if p0 == "kept" and g != "kept":
                    still_ref = any(cls(refs_now.get(f)) == cls(d) for f in part)
                    if not approved_trim or still_ref:
                        mm("persisted-file-removed", k, {"datum": d, "approved_trim": approved_trim, "referenced": still_ref,
                                                         "action": {x: st[x] for x in st if x not in ("post", "pruned")}})
            # a reference that the tool wrote in this step must be readable afterwards
            for f, r in refs_now.items():
                if a == "session" and r in hashes and r != prev_refs.get(f):
                    ms = [x for x in contents if got_store[x] == "kept" and cls(x) == cls(r)]
                    if not ms and not collide:
                        mm("written-reference-unreadable", k, {"file": f, "ref": r, "store": got_store})
            if got_store != post["store"] and not mism:
                mism.append({"clause": "store-drift", "props": [], "step": k, "id": hist["id"],
                             "detail": {"exp": post["store"], "got": got_store}})
            prev_refs = refs_now
            for f, e in post["exists"].items():
                if e:
                    got = abstract_arg(read_arg(f))
                    exp = post["arg"][f]
                    same_class = got == exp or (got in hashes and exp in hashes and hashes[got][:hash_length] == hashes[exp][:hash_length])
                    if not same_class:
                        mm("reference", k, {"file": f, "exp": exp, "got": got})
            # lookups are exact
            try:
                from inline_snapshot._external import DiscStorage, HashError
                ds = DiscStorage(ext_dir)
                for d, h in hashes.items():
                    name = h[:hash_length] + "*" + real_suffix
                    matches = [x for x in contents if got_store[x] != "absent" and hashes[x][:hash_length] == h[:hash_length]]
                    try:
                        data = ds.read(name)
                        if len(matches) != 1 or data != contents[matches[0]]:
                            mm("lookup", k, {"name": name, "matches": matches})
                    except HashError:
                        if len(matches) == 1:
                            mm("lookup", k, {"name": name, "error": "HashError although unique"})
            except ImportError:
                pass
            prev_store = got_store
            if any(m["props"] for m in mism):
                break
        info = {"hash_length": hash_length, "storage_dir": storage_dir, "suffix": real_suffix, "bytes": as_bytes,
                "steps": len(steps_done)}
        return mism, info
    finally:
        shutil.rmtree(proj, ignore_errors=True)


def _worker(args):
    hists, seed, collide = args
    out = []
    for h in hists:
        try:
            mism, info = replay_history(h, seed, collide)
            out.append({"id": h["id"], "mism": mism, "info": info})
        except Exception:  # noqa
            import traceback
            out.append({"id": h["id"], "error": traceback.format_exc()[-1500:]})
    return out
