"""C16: the text written for a value is identical across hash seeds and construction orders, and the formatter
(black / missing / format-command) only changes layout.  The same module is created in separate interpreters with
different PYTHONHASHSEED values, two construction variants per value and three formatter configurations."""
from __future__ import annotations

import ast
import os
import shutil
import tempfile
from pathlib import Path

HEADER = '''from inline_snapshot import snapshot, outsource
import enum


class Thing:
    # its repr is no Python code: recorded as HasRepr(...), which needs an import - like the outsourced value below
    def __repr__(self):
        return "<Thing at home>"

    def __eq__(self, other):
        if not isinstance(other, Thing):
            return NotImplemented
        return True


class Color(enum.Enum):
    RED = 1
    GREEN = "g"
    BLUE = (0, 0, 1)


'''
# (element class of spec/ISCodeGen.tla, construction variant a, construction variant b)
VALUES = [
    ("total", "{3, 1, 2}", "set([2, 3, 1])"),
    ("total", "{'b', 'a', 'c', 'dd', 'e' * 9}", "set(['e' * 9, 'dd', 'c', 'a', 'b'])"),
    ("total", "frozenset({2, 1, 9, 17})", "frozenset([17, 9, 1, 2])"),
    ("total", "{1.5, -2, 10 ** 20}", "{10 ** 20, 1.5, -2}"),
    ("total", "{8, 16, 0, 24}", "{24, 0, 16, 8}"),
    ("total", "{(1, 'a'), (0, 'b'), (1, 'A')}", "{(1, 'A'), (0, 'b'), (1, 'a')}"),
    ("total", "{b'x', b'a', b'\\xff'}", "{b'\\xff', b'x', b'a'}"),
    ("mixed", "{1, 'a', None, (1, 2)}", "{(1, 2), None, 'a', 1}"),
    ("mixed", "{'x', 2.5, b'b'}", "{b'b', 2.5, 'x'}"),
    ("mixed", "{Color.RED, Color.GREEN, Color.BLUE}", "{Color.BLUE, Color.GREEN, Color.RED}"),
    ("mixed", "{None, 'None', 0}", "{0, 'None', None}"),
    ("partial", "{frozenset({'a'}), frozenset({'b'}), frozenset({'a', 'b'}), frozenset()}",
     "{frozenset(), frozenset({'b', 'a'}), frozenset({'b'}), frozenset({'a'})}"),
    ("partial", "{frozenset({1}), frozenset({2}), frozenset({3}), frozenset({4, 5})}",
     "{frozenset({5, 4}), frozenset({3}), frozenset({2}), frozenset({1})}"),
    ("partial", "frozenset({frozenset({'x', 'y'}), frozenset({'z'}), frozenset({'w'})})",
     "frozenset([frozenset({'w'}), frozenset({'z'}), frozenset({'y', 'x'})])"),
    ("partial", "{(frozenset({'p'}), 1), (frozenset({'q'}), 1), (frozenset({'r'}), 0)}",
     "{(frozenset({'r'}), 0), (frozenset({'q'}), 1), (frozenset({'p'}), 1)}"),
    ("partial", "{frozenset({'a', 'd'}), frozenset({'b', 'c'}), frozenset({'e', 'f', 'g'})}",
     "{frozenset(['g', 'f', 'e']), frozenset(['c', 'b']), frozenset(['d', 'a'])}"),
    ("partial", "{(frozenset({'p', 'q'}), 1), (frozenset({'r', 's'}), 1), (frozenset({'t', 'u'}), 0)}",
     "{(frozenset(['u', 't']), 0), (frozenset(['s', 'r']), 1), (frozenset(['q', 'p']), 1)}"),
    ("partial", "frozenset({frozenset({10, 20}), frozenset({30, 40}), frozenset({'x', 'yy'})})",
     "frozenset([frozenset(['yy', 'x']), frozenset([40, 30]), frozenset([20, 10])])"),
    ("nested", "{'k': {3, 1}, 'j': {'b', 'a'}}", "dict(k=set([1, 3]), j=set(['a', 'b']))"),
    ("nested", "[({'b', 'a'},), frozenset({'c', 'd'})]", "[(set(['a', 'b']),), frozenset(['d', 'c'])]"),
    ("dict", "{'b': 1, 'a': 2, 'c': {'z': 0, 'y': 1}}", "dict([('b', 1), ('a', 2), ('c', dict(z=0, y=1))])"),
    ("dict", "{1: 'x', 'k': [1, {2, 3}], None: ()}", "dict([(1, 'x'), ('k', [1, set([3, 2])]), (None, ())])"),
    ("empty", "[set(), frozenset(), {}]", "[set([]), frozenset([]), dict()]"),
]


# the same for values that are FIXED into an existing snapshot (the structural assignment inserts / appends the new
# entries): (class, construction a, construction b, existing source).  The order of dict entries is part of the value,
# so both constructions build the same order in different ways.
_D6 = "[('id', 1), ('name', 'n'), ('mail', 'm'), ('zip', 'z'), ('city', 'c'), ('tel', 't'), ('fax', 'f')]"
FIXES = [
    ("dict-append", "dict(%s)" % _D6, "{k: v for k, v in %s}" % _D6, "{'id': 1}"),
    ("dict-append", "dict(%s)" % _D6, "{k: v for k, v in %s}" % _D6, "{}"),
    ("dict-flush", "dict(%s)" % _D6, "{k: v for k, v in %s}" % _D6, "{'fax': 'f'}"),
    ("dict-flush", "dict(%s)" % _D6, "{k: v for k, v in %s}" % _D6, "{'zip': 0, 'gone': 1, 'fax': 'f'}"),
    ("dict-append", "{10: 0, 3: 0, 1: 0, 7: 0, 22: 0}", "dict.fromkeys([10, 3, 1, 7, 22], 0)", "{10: 0}"),
    ("dict-append", "[{'q': 1, 'b': 2, 'x': 3, 'a': 4}]", "[dict(q=1, b=2, x=3, a=4)]", "[{'q': 1}]"),
    ("set-fix", "{'b', 'a', 'c', 'dd'}", "set(['dd', 'c', 'a', 'b'])", "{'a'}"),
    ("set-fix", "[{'b', 'a', 'c'}, 1]", "[set(['c', 'a', 'b']), 1]", "[{'x'}, 1]"),
    ("list-fix", "['n', {'s', 't', 'u'}, 'm', frozenset({'p', 'q'})]", "['n', set(['u', 't', 's']), 'm', frozenset(['q', 'p'])]", "['m']"),
]
NV = len(VALUES) + len(FIXES)


def module_text(variant: int):
    out = [HEADER]
    for k, v in enumerate(VALUES):
        out.append("def test_%d():\n    assert %s == snapshot()\n\n\n" % (k, v[1 + variant]))
    for k, v in enumerate(FIXES, len(VALUES)):
        out.append("def test_%d():\n    assert %s == snapshot(%s)\n\n\n" % (k, v[1 + variant], v[3]))
    # two kinds of generated code that need an added import each (the order of the added lines is part of the text)
    out.append("def test_imports():\n    assert Thing() == snapshot()\n    assert outsource('some text') == snapshot()\n")
    return "".join(out)


def value_of(k):
    """(class, construction a, existing source or None)"""
    if k < len(VALUES):
        return VALUES[k][0], VALUES[k][1], None
    f = FIXES[k - len(VALUES)]
    return f[0], f[1], f[3]


def run_one(args):
    variant, hashseed, fmt = args
    from . import inline_driver, session_driver as sd
    d = Path(tempfile.mkdtemp(prefix="verif_det_"))
    try:
        proj = d / "proj"
        proj.mkdir()
        (proj / "test_det.py").write_text(module_text(variant))
        env = {"PYTHONHASHSEED": str(hashseed)}
        if fmt == "cmd":
            (proj / "pyproject.toml").write_text('[tool.inline-snapshot]\nformat-command = "cat"\n')
        if fmt == "none":
            shadow = d / "shadow" / "black"
            shadow.mkdir(parents=True)
            (shadow / "__init__.py").write_text("raise ImportError('black is not installed (verif)')\n")
            env["PYTHONPATH"] = str(d / "shadow") + os.pathsep + sd.base_env()["PYTHONPATH"]
        r = sd.run_subprocess(proj, ["--inline-snapshot=create,fix"], env=env, timeout=180)
        text = (proj / "test_det.py").read_text()
        try:
            args_ = inline_driver.snapshot_args(text)
        except SyntaxError as e:
            return {"key": [variant, hashseed, fmt], "error": "syntax: %s" % e, "args": None}
        imports = " | ".join(l for l in text.splitlines() if l.startswith(("from inline_snapshot import", "import inline_snapshot")))
        return {"key": [variant, hashseed, fmt], "error": None if r["rc"] in (0, 1) else "rc=%s %s" % (r["rc"], r["stdout"][-300:]),
                "args": [a[2] for a in args_][:NV], "imports": imports}
    finally:
        shutil.rmtree(d, ignore_errors=True)


def judge(results):
    """-> mismatches"""
    mism = []
    by_fmt = {}
    for r in results:
        if r["error"] or r["args"] is None or len(r["args"]) < NV:
            mism.append({"clause": "session", "props": ["C16", "C18"], "detail": {"key": r["key"], "error": r["error"]}})
            continue
        by_fmt.setdefault(r["key"][2], []).append(r)
    ref = {}
    for fmt, rs in by_fmt.items():
        texts = {}
        for r in rs:
            texts.setdefault(r.get("imports"), []).append(r["key"][:2])
        if len(texts) != 1:
            mism.append({"clause": "hash-seed", "props": ["C16"],
                         "detail": {"value": "the import lines added for generated code", "class": "imports", "formatter": fmt,
                                    "texts": {t: ks[:4] for t, ks in list(texts.items())[:4]}}})
        for k in range(NV):
            v = (value_of(k)[0], value_of(k)[1])
            texts = {}
            for r in rs:
                texts.setdefault(r["args"][k], []).append(r["key"][:2])
            if len(texts) != 1:
                seeds_differ = len({t for t, ks in texts.items() for (va, s) in ks if va == 0}) > 1
                mism.append({"clause": "hash-seed" if seeds_differ else "construction-order", "props": ["C16"],
                             "detail": {"value": v[1], "class": v[0], "existing": value_of(k)[2], "formatter": fmt,
                                        "texts": {t: ks[:4] for t, ks in list(texts.items())[:4]}}})
            ref.setdefault(k, {})[fmt] = next(iter(texts))
    for k, per in ref.items():
        dumps = {}
        for fmt, t in per.items():
            if t is None:
                mism.append({"clause": "not-created", "props": ["C16", "C01"], "detail": {"value": value_of(k)[1], "formatter": fmt}})
                continue
            try:
                dumps[fmt] = ast.dump(ast.parse(t, mode="eval"))
            except SyntaxError:
                mism.append({"clause": "formatter-syntax", "props": ["C16"], "detail": {"value": value_of(k)[1], "formatter": fmt, "text": t}})
        if len(set(dumps.values())) > 1:
            mism.append({"clause": "formatter-changes-code", "props": ["C16"],
                         "detail": {"value": value_of(k)[1], "class": value_of(k)[0], "texts": per}})
    return mism
