"""Spec -> code for spec/ISReEval.tla: a `== snapshot(<container>)` call that is executed several times in one session.
Slots of the container are literals, Is(...) parts whose value differs between the evaluations, or references to a
mutable object that the test mutates in place.  Every terminal state of the bounded model is rendered as a module,
executed without flags, and the outcome of every evaluation (answer / UsageError), the pending categories and the
file are compared with the model."""
from __future__ import annotations

import json
import random
import zlib
from pathlib import Path

POOLS = [[0, 1, 2], ["", "a", "b"], [0, 7, -1], [None, True, "x"], [0.0, 1.5, 2.5]]
# atom 0 is the default of every field of the class (the constructor-call adapters skip default arguments)


def load_cases(out_dir: Path, seed: int):
    cases = []
    for f in sorted(out_dir.glob("case_*.json")):
        c = json.loads(f.read_text())
        c["h"] = zlib.crc32(("%s|%s" % (c["id"], seed)).encode())
        cases.append(c)
    cases.sort(key=lambda c: c["h"])
    return cases


class Gamma:
    def __init__(self, rng, case):
        self.atoms = rng.choice(POOLS)
        # "subdict": a dict snapshot whose entries are compared one by one through snapshot[key] (sub-snapshots)
        self.carrier = rng.choice(["list", "tuple", "dict", "call", "call", "nested", "subdict", "subdict"])
        self.class_kind = rng.choice(["dataclass", "attrs", "namedtuple"])
        self.placement = rng.choice(["func", "lambda"])
        self.reflect = rng.random() < 0.5
        self.n = len(case["kinds"])

    def header(self):
        out = ["from inline_snapshot import snapshot, Is\nimport verif_rec as _r\n"]
        if self.carrier == "call":
            flds = "".join("    f%d: object = %r\n" % (j + 1, self.atoms[0]) for j in range(self.n))
            if self.class_kind == "dataclass":
                out.append("from dataclasses import dataclass\n\n\n@dataclass\nclass C:\n" + flds)
            elif self.class_kind == "attrs":
                out.append("import attrs\n\n\n@attrs.define\nclass C:\n" + flds)
            else:
                out.append("from typing import NamedTuple\n\n\nclass C(NamedTuple):\n" + flds)
        return "".join(out) + "\n\n"

    def container(self, elems):
        if self.carrier == "list":
            return "[" + ", ".join(elems) + "]"
        if self.carrier == "tuple":
            return "(" + ", ".join(elems) + ("," if len(elems) == 1 else "") + ")"
        if self.carrier in ("dict", "subdict"):
            return "{" + ", ".join("'k%d': %s" % (j, e) for j, e in enumerate(elems)) + "}"
        if self.carrier == "nested":
            return "{'outer': [" + ", ".join(elems) + "], 'z': 0}"
        return "C(" + ", ".join("f%d=%s" % (j + 1, e) for j, e in enumerate(elems)) + ")"


def render(case, g: Gamma) -> str:
    kinds = case["kinds"]
    first = case["evs"][0]["vals"]
    out = [g.header()]
    out.append("_d = {%s}\n" % ", ".join("%d: %r" % (j, g.atoms[first[j]]) for j in range(g.n)))
    for j, kd in enumerate(kinds):
        if kd == "ref":
            out.append("_box%d = [%r]\n" % (j, g.atoms[first[j]]))
    elems = []
    for j, kd in enumerate(kinds):
        if kd == "lit":
            elems.append(repr(g.atoms[first[j]]))
        elif kd == "dyn":
            elems.append("Is(_d[%d])" % j)
        else:
            elems.append("_box%d" % j)
    arg = g.container(elems)
    if g.placement == "func":
        out.append("\n\ndef _site():\n    return snapshot(%s)\n\n\n" % arg)
    else:
        out.append("\n\n_site = lambda: snapshot(%s)\n\n\n" % arg)
    for k, ev in enumerate(case["evs"], 1):
        out.append("def test_%d():\n" % k)
        for j, kd in enumerate(kinds):
            if kd == "dyn":
                out.append("    _d[%d] = %r\n" % (j, g.atoms[ev["vals"][j]]))
            elif kd == "ref":
                out.append("    _box%d[0] = %r          # in-place mutation of the object the argument refers to\n" % (j, g.atoms[ev["vals"][j]]))
        cmp_elems = [("[%r]" % (g.atoms[ev["cmp"][j]],)) if kinds[j] == "ref" else repr(g.atoms[ev["cmp"][j]]) for j in range(g.n)]
        value = g.container(cmp_elems)
        e = "_site() == %s" % value if g.reflect else "%s == _site()" % value
        if g.carrier == "subdict":
            # every entry through its own sub-snapshot (one evaluation of the call, then the keys one by one)
            out.append("    with _r.at(%d, 1):\n        _s = _site()\n        _r.val(all([%s]))\n\n\n"
                       % (k, ", ".join("_s['k%d'] == %s" % (j, c) for j, c in enumerate(cmp_elems))))
            continue
        out.append("    with _r.at(%d, 1):\n        _r.val(%s)\n\n\n" % (k, e))
    return "".join(out)


def replay_one(case, seed):
    from . import inline_driver
    rng = random.Random("%s|%s" % (case["id"], seed))
    g = Gamma(rng, case)
    text = render(case, g)
    obs = inline_driver.run_session({"test_case.py": text}, [])
    mism = []

    def mm(clause, props, detail):
        mism.append({"clause": clause, "props": props, "detail": detail})
    info = {"atoms": g.atoms, "carrier": g.carrier, "class_kind": g.class_kind if g.carrier == "call" else None}
    if obs.get("import_error"):
        mm("import", ["C18"], obs["import_error"])
        return mism, info, text
    if obs.get("finish_error"):
        mm("finish", ["C18"], obs["finish_error"][:2])
        return mism, info, text
    got = [x[2] for x in obs["log"]]
    want = [{"UE": "UsageError"}.get(r, r) for r in case["res"]]
    if got != want:
        for j, (a, b) in enumerate(zip(want, got)):
            if a != b:
                if b not in ("T", "F", "UsageError"):
                    # the comparison raised something else (the re-evaluation corrupted the stored value)
                    mm("exception", ["C14", "C06", "C18"], {"evaluation": j + 1, "exp": a, "got": b})
                elif b == "UsageError" or a == "UsageError":
                    # a usage error that the model does not predict (a dynamic part changed) / a changed
                    # hand-written part that is accepted silently
                    mm("usage-error", ["C14"], {"evaluation": j + 1, "exp": a, "got": b})
                else:
                    mm("res", ["C06"], {"evaluation": j + 1, "exp": a, "got": b})
                break
        if len(got) != len(want):
            mm("res", ["C06"], {"exp": want, "got": got})
    cats = sorted(obs.get("categories", []))
    if "ref" in case["kinds"]:
        # (a reference is a hand-written managed expression: update may offer to write its value out)
        cats = [c for c in cats if c != "update"]
    if cats and all(r == "T" for r in case["res"]):
        mm("pending", ["C10", "C05"], {"got": cats})
    if obs["files"]["test_case.py"] != text:
        mm("unapproved-write", ["C04"], {})
    return mism, info, text


def _worker(args):
    cases, seed = args
    import contextlib
    import io
    out = []
    for case in cases:
        try:
            with contextlib.redirect_stderr(io.StringIO()):
                mism, info, text = replay_one(case, seed)
            out.append({"id": case["id"], "mism": mism, "info": info, "text": text if mism else None})
        except Exception:  # noqa
            import traceback
            out.append({"id": case["id"], "error": traceback.format_exc()[-2000:]})
    return out


def run(chk, stride=16, slots=2):
    from . import pool, tlc
    from .checklib import MachineryError
    res = tlc.run_tlc("MC_ReEval", "ReEval.cfg", workers=16, timeout=1500,
                      overrides={"Mode": "emit", "Stride": stride, "Offset": chk.seed % stride, "NSlots": slots})
    chk.add_tlc(res, "mc+emit ReEval (NSlots=%d, MaxEvals=3, 1/%d of the terminal states)" % (slots, stride))
    try:
        if not res.ok:
            chk.spec_violation(res, "mc ReEval")
            return
        cases = load_cases(res.out_dir, chk.seed)
    finally:
        tlc.cleanup(res)
    if not cases:
        raise MachineryError("no cases emitted by MC_ReEval")
    by_id = {c["id"]: c for c in cases}
    errors = 0
    for chunk in pool.parallel_map(_worker, [(c, chk.seed) for c in pool.chunks(cases, 60)]):
        for r in chunk:
            case = by_id[r["id"]]
            if "error" in r:
                errors += 1
                if errors <= 3:
                    print("driver error on reeval case %s:\n%s" % (r["id"], r["error"]))
                continue
            nontrivial = len(case["evs"]) > 1
            chk.count(1, "reeval%s" % r["id"] if nontrivial else None)
            chk.validated(1)
            if nontrivial and "UE" in case["res"] and case["h"] % 211 == 0:
                chk.sample({"kind": "spec->code replay (ISReEval terminal state)", "slot_kinds": case["kinds"], "evaluations": case["evs"],
                            "expected": case["res"], "concretisation": r["info"]}, limit=8)
            for m in r["mism"]:
                chk.mismatch(m["clause"], {"clause": m["clause"], "model": "reeval", "carrier": r["info"]["carrier"], "kinds": case["kinds"]},
                             {"kind": "reeval-case", "case": case, "seed": chk.seed, "mismatch": m, "module": r["text"],
                              "concretisation": r["info"]}, props=m["props"])
    if errors:
        raise MachineryError("%d reeval replay jobs crashed in the harness" % errors)
