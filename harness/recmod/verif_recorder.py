"""Harness-side pytest plugin (``-p verif_recorder``): observes a real session through pytest's own
hook points and writes what it saw to $VERIF_SESSION_FILE.  Nothing here touches inline-snapshot's
behaviour; internal names are read only as optional enrichment."""
import json
import os

import pytest

DATA = {"reports": [], "configure": None, "exitstatus": None, "internal_errors": 0, "events": []}


def _state():
    try:
        from inline_snapshot._global_state import state
        s = state()
        return {"active": bool(s.active), "flags": sorted(s.flags),
                "update_flags": sorted(s.update_flags.to_set())}
    except Exception as e:  # noqa
        return {"error": repr(e)}


@pytest.hookimpl(trylast=True)
def pytest_configure(config):
    DATA["configure"] = _state()
    DATA["worker"] = hasattr(config, "workerinput")
    st = None
    try:
        from inline_snapshot._global_state import state
        st = state().storage
        DATA["configure"]["storage_listing"] = sorted(st.list()) if st is not None else None
        DATA["configure"]["storage_dir"] = str(st.directory) if st is not None else None
    except Exception:  # noqa
        pass


def pytest_runtest_logreport(report):
    DATA["reports"].append([report.nodeid, report.when, report.outcome,
                            bool(getattr(report, "wasxfail", False) or hasattr(report, "wasxfail"))])


def pytest_internalerror(excrepr, excinfo):
    DATA["internal_errors"] += 1
    DATA.setdefault("internal_error_text", str(excrepr)[-1500:])


@pytest.hookimpl(tryfirst=True)
def pytest_sessionfinish(session, exitstatus):
    DATA["exitstatus"] = int(exitstatus)
    DATA["at_finish"] = _state()
    _dump()


def pytest_unconfigure(config):
    _dump()


def _dump():
    p = os.environ.get("VERIF_SESSION_FILE")
    if p:
        if DATA.get("worker"):
            p = p + ".worker%d" % os.getpid()
        with open(p, "w") as f:
            json.dump(DATA, f)
