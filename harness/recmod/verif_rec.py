"""Recorder imported by generated test modules (harness side, never part of /repo).

Each statement of a generated test is wrapped in ``with _r.at(t, j): ...``; the outcome of the
statement is logged when the block is left - i.e. after the public call returned, which is the
linearisation point of the corresponding spec action in this sequential library:

    "T" / "F"          truth value passed to _r.val(...) or outcome of a plain ``assert``
    "TE"               the statement raised TypeError
    "<ExceptionName>"  any other exception (it still propagates to the test)

In a real pytest session (plugin driver) the log is written as JSON to $VERIF_REC_FILE at exit.
"""
import atexit
import json
import os

LOG = []          # [t, j, outcome]
EXTRA = []        # free-form observations: [tag, ...]
_cur = None


class at:
    def __init__(self, t, j):
        self.t, self.j, self.v = t, j, None

    def __enter__(self):
        global _cur
        _cur = self
        return self

    def __exit__(self, et, ev, tb):
        global _cur
        _cur = None
        if et is None:
            out = "T" if self.v is None else self.v
        elif et is AssertionError:
            out = "F"
        elif et is TypeError:
            out = "TE"
        else:
            out = et.__name__
        LOG.append([self.t, self.j, out])
        return False


def val(x):
    """Record the truth value of a comparison that is not asserted."""
    _cur.v = "T" if x else "F"
    return x


def note(*a):
    EXTRA.append(list(a))


def reset():
    del LOG[:]
    del EXTRA[:]


def snapshot_log():
    return [list(x) for x in LOG], [list(x) for x in EXTRA]


def _dump_to(p):
    with open(p, "w") as f:
        json.dump({"log": LOG, "extra": EXTRA}, f)


def _dump():
    p = os.environ.get("VERIF_REC_FILE")
    if p and os.environ.get("PYTEST_XDIST_WORKER"):
        p = p + "." + os.environ["PYTEST_XDIST_WORKER"]       # every xdist worker has its own log
    if p:
        try:
            with open(p, "w") as f:
                json.dump({"log": LOG, "extra": EXTRA}, f)
        except Exception:
            pass


if os.environ.get("VERIF_REC_FILE"):
    atexit.register(_dump)
