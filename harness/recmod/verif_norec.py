"""Same interface as verif_rec, records nothing: used by the twin copy of a generated module (the twin has the same
code objects as the module under observation, only this import differs)."""
import contextlib


def at(t, j):
    return contextlib.nullcontext()


def val(x):
    return x


def note(*a):
    pass
