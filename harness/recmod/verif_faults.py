"""Harness-side pytest plugin (``-p verif_faults``): observes the file-system / formatter calls of the
end-of-session pipeline through CPython's audit events and injects ONE fault at a chosen call boundary.

  $VERIF_FAULT_LOG   file receiving one JSON line per boundary event (written outside the project)
  $VERIF_FAULT_PLAN  JSON {"index": k, "kind": "exception" | "crash" | "write-exception" | "write-crash"
                           | "fmt-exit1" | "fmt-garbage" | "fmt-empty" | "fmt-nonutf8" | "fmt-raise"}   (k counts from 1)

Boundary events (armed from the start of pytest_sessionfinish, which runs before inline-snapshot's hook):
  open-r <file>   a test file is opened for reading        open-w <file>   ... for writing (truncates)
  rename <a> <b>  os.rename (persist of an external)       remove <file>   os.remove / os.unlink (trim)
  fmt             one invocation of the formatter: subprocess of the format-command or black.format_str
A fault "exception" makes that very call raise (PermissionError at file-system calls, else RuntimeError); "crash" ends the process with os._exit(137) at the
boundary; "write-*" lets the open succeed and fails the first write() on the returned file object.  Formatter
faults replace the result of that invocation.
"""
import builtins
import json
import os
import sys

import pytest

LOG = os.environ.get("VERIF_FAULT_LOG")
PLAN = json.loads(os.environ.get("VERIF_FAULT_PLAN") or "null")
PROJECT = None
_state = {"armed": False, "n": 0, "busy": False, "fired": False}


def _log(ev):
    if LOG:
        fd = os.open(LOG, os.O_WRONLY | os.O_APPEND | os.O_CREAT)
        try:
            os.write(fd, (json.dumps(ev) + "\n").encode())
        finally:
            os.close(fd)


def _boundary(kind, *what):
    """count a boundary event; returns the fault kind to apply here (or None)"""
    _state["n"] += 1
    n = _state["n"]
    ev = {"n": n, "ev": kind, "what": [str(w) for w in what]}
    fault = None
    if PLAN and PLAN.get("index") == n and not _state["fired"]:
        _state["fired"] = True
        fault = PLAN["kind"]
        ev["fault"] = fault
    _log(ev)
    if fault == "crash":
        os._exit(137)
    if fault == "exception":
        if kind in ("rename", "remove", "open-r", "open-w"):
            # what a failing file-system call really raises
            raise PermissionError(13, "verif: injected fault at boundary %d (%s)" % (n, kind))
        raise RuntimeError("verif: injected fault at boundary %d (%s)" % (n, kind))
    return fault


def _in_project(path):
    try:
        p = os.path.abspath(os.fspath(path))
    except TypeError:
        return False
    return PROJECT is not None and p.startswith(PROJECT + os.sep) and "__pycache__" not in p


def _hook(event, args):
    if not _state["armed"] or _state["busy"]:
        return
    _state["busy"] = True
    try:
        if event == "os.rename":
            _boundary("rename", os.path.basename(str(args[0])), os.path.basename(str(args[1])))
        elif event == "os.remove":
            if _in_project(args[0]):
                _boundary("remove", os.path.basename(str(args[0])))
        elif event == "subprocess.Popen":
            pass        # formatter invocations are counted in the wrapped subprocess.run / black.format_str
    finally:
        _state["busy"] = False


_real_open = builtins.open


class _FailingWriter:
    def __init__(self, f, kind):
        self._f, self._kind = f, kind

    def write(self, data):
        if self._kind == "write-crash":
            self._f.flush()
            os._exit(137)
        raise OSError(28, "verif: injected write failure")

    def __enter__(self):
        return self

    def __exit__(self, *a):
        self._f.close()
        return False

    def __getattr__(self, name):
        return getattr(self._f, name)


def _open(file, mode="r", *a, **kw):
    if _state["armed"] and not _state["busy"] and isinstance(file, (str, os.PathLike)) and _in_project(file) \
            and str(file).endswith(".py"):
        _state["busy"] = True
        try:
            fault = _boundary("open-w" if ("w" in mode or "a" in mode or "+" in mode) else "open-r", os.path.basename(str(file)))
        finally:
            _state["busy"] = False
        f = _real_open(file, mode, *a, **kw)
        if fault in ("write-exception", "write-crash"):
            return _FailingWriter(f, fault)
        return f
    return _real_open(file, mode, *a, **kw)


def _patch_formatters():
    import subprocess
    real_run = subprocess.run

    def run(cmd, *a, **kw):
        if _state["armed"] and kw.get("shell") and "input" in kw:
            fault = _boundary("fmt", "command")
            if fault == "fmt-exit1":
                return subprocess.CompletedProcess(cmd, 1, b"", b"verif: injected formatter failure")
            if fault == "fmt-garbage":
                return subprocess.CompletedProcess(cmd, 0, b"def broken(:\n    ]]] not python\n", b"")
            if fault == "fmt-empty":
                # a formatter that succeeds and prints nothing (valid Python - but not the program)
                return subprocess.CompletedProcess(cmd, 0, b"", b"")
            if fault == "fmt-nonutf8":
                return subprocess.CompletedProcess(cmd, 0, b"x = '\xff\xfe'\n", b"")
            if fault == "fmt-raise":
                raise OSError("verif: injected failure to start the formatter")
        return real_run(cmd, *a, **kw)
    subprocess.run = run
    try:
        import black
        real_fmt = black.format_str

        def format_str(src, *a, **kw):
            if _state["armed"]:
                fault = _boundary("fmt", "black")
                if fault in ("fmt-raise", "fmt-exit1"):
                    raise black.InvalidInput("verif: injected black failure")
                if fault == "fmt-garbage":
                    return "def broken(:\n    ]]] not python\n"
                if fault == "fmt-empty":
                    return ""
            return real_fmt(src, *a, **kw)
        black.format_str = format_str
    except Exception:  # noqa
        pass


def pytest_configure(config):
    global PROJECT
    PROJECT = str(config.rootpath)
    sys.addaudithook(_hook)
    builtins.open = _open
    import io
    io.open = _open
    _patch_formatters()


@pytest.hookimpl(tryfirst=True)
def pytest_sessionfinish(session, exitstatus):
    _state["armed"] = True
    _log({"n": 0, "ev": "armed"})


def pytest_unconfigure(config):
    _state["armed"] = False
    _log({"n": -1, "ev": "unconfigure", "popped": _popped()})


def _popped():
    try:
        from inline_snapshot import _global_state
        return len(_global_state._latest_global_states) == 0
    except Exception:  # noqa
        return None
