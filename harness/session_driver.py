"""The "plugin/fork" and "plugin/subprocess" drivers (DESIGN 4.1): real pytest sessions of the real
plugin in a project directory, with exactly the command line a user would type.

fork:       the calling process (a pool worker that has pytest, black, rich, the plugin ... imported)
            forks; the child changes into the project directory, wires stdin/stdout/stderr and calls
            pytest.main(args).  ~0.3 s per session.
subprocess: ``python -m pytest`` as a fresh interpreter (hash seeds, "black missing", cross-check).
"""
from __future__ import annotations

import hashlib
import json
import os
import signal
import subprocess
import sys
import tempfile
import time
from pathlib import Path

RECMOD = str(Path(__file__).resolve().parent / "recmod")
CI_VARS = ("CI", "bamboo.buildKey", "BUILD_ID", "BUILD_NUMBER", "BUILDKITE", "CIRCLECI",
           "CONTINUOUS_INTEGRATION", "GITHUB_ACTIONS", "HUDSON_URL", "JENKINS_URL", "TEAMCITY_VERSION",
           "TRAVIS", "PYCHARM_HOSTED", "INLINE_SNAPSHOT_DEFAULT_FLAGS", "FORCE_COLOR", "NO_COLOR",
           "PYTEST_ADDOPTS", "TERM")
BASE_ARGS = ["-p", "no:cacheprovider", "-p", "inline_snapshot.pytest_plugin", "-p", "verif_recorder", "-q"]


def preload():
    """import everything a session needs, so that forked children start warm"""
    repo = os.environ.get("VERIF_REPO")
    if repo and str(Path(repo) / "src") not in sys.path:
        sys.path.insert(0, str(Path(repo) / "src"))
    if RECMOD not in sys.path:
        sys.path.insert(0, RECMOD)
    import pytest  # noqa
    import _pytest.assertion.rewrite  # noqa
    import _pytest.terminal  # noqa
    import _pytest.junitxml  # noqa
    import rich.console, rich.panel, rich.prompt, rich.syntax  # noqa
    import black  # noqa
    import executing, asttokens  # noqa
    # inline_snapshot itself is NOT preloaded: every session imports the plugin afresh from the
    # current tree (and pytest can rewrite the assertions of inline_snapshot.extra as it does for users)
    try:
        import xdist.plugin  # noqa
    except Exception:  # noqa
        pass
    try:
        import pydantic, attrs  # noqa
    except Exception:  # noqa
        pass


def base_env(extra: dict | None = None) -> dict:
    e = {k: v for k, v in os.environ.items() if k not in CI_VARS}
    e["TERM"] = "unknown"
    e["COLUMNS"] = "100"
    e["PYTEST_DISABLE_PLUGIN_AUTOLOAD"] = "1"
    e["PYTHONDONTWRITEBYTECODE"] = "1"
    e["PYTHONPATH"] = os.pathsep.join([RECMOD] + ([str(Path(os.environ["VERIF_REPO"]) / "src")] if os.environ.get("VERIF_REPO") else [])
                                      + [p for p in e.get("PYTHONPATH", "").split(os.pathsep) if p])
    e.update(extra or {})
    return e


def _collect(tmp: Path, rc, t0, timed_out=False):
    def rd(name):
        p = tmp / name
        return p.read_text(errors="replace") if p.exists() else ""
    res = {"rc": rc, "stdout": rd("stdout"), "stderr": rd("stderr"), "wall_s": time.time() - t0,
           "timed_out": timed_out, "session": None, "log": [], "extra": [], "workers": []}
    try:
        res["session"] = json.loads(rd("session.json"))
    except Exception:  # noqa
        pass
    for w in sorted(tmp.glob("session.json.worker*")):
        try:
            res["workers"].append(json.loads(w.read_text()))
        except Exception:  # noqa
            pass
    try:
        d = json.loads(rd("rec.json"))
        res["log"], res["extra"] = d["log"], d["extra"]
    except Exception:  # noqa
        pass
    for w in sorted(tmp.glob("rec.json.*")):
        try:
            d = json.loads(w.read_text())
            res["log"] += d["log"]
            res["extra"] += d["extra"]
        except Exception:  # noqa
            pass
    return res


def run_fork(project: Path, args, env: dict | None = None, stdin: bytes = b"", timeout: float = 120,
             cwd: Path | None = None, child_setup=None, tty: bool | None = None) -> dict:
    """One real session in a forked child.  `args` are the user's arguments (e.g. --inline-snapshot=fix)."""
    tmp = Path(tempfile.mkdtemp(prefix="verif_sess_"))
    t0 = time.time()
    full_env = base_env(env)
    full_env["VERIF_SESSION_FILE"] = str(tmp / "session.json")
    full_env["VERIF_REC_FILE"] = str(tmp / "rec.json")
    if tty is True or (tty is None and stdin):
        full_env.setdefault("FORCE_COLOR", "true")     # makes rich's Console.is_terminal true (as the repo's tests do)
    (tmp / "stdin").write_bytes(stdin)
    pid = os.fork()
    if pid == 0:
        rc = 70
        try:
            os.setsid()
            os.environ.clear()
            os.environ.update(full_env)
            os.chdir(cwd or project)
            fd_in = os.open(tmp / "stdin", os.O_RDONLY)
            fd_out = os.open(tmp / "stdout", os.O_WRONLY | os.O_CREAT | os.O_TRUNC)
            fd_err = os.open(tmp / "stderr", os.O_WRONLY | os.O_CREAT | os.O_TRUNC)
            os.dup2(fd_in, 0)
            os.dup2(fd_out, 1)
            os.dup2(fd_err, 2)
            sys.stdin = open(0, "r", closefd=False)
            sys.stdout = open(1, "w", closefd=False)
            sys.stderr = open(2, "w", closefd=False)
            sys.__stdin__, sys.__stdout__, sys.__stderr__ = sys.stdin, sys.stdout, sys.stderr
            sys.dont_write_bytecode = True
            if RECMOD not in sys.path:
                sys.path.insert(0, RECMOD)
            import verif_rec
            verif_rec.reset()
            if child_setup is not None:
                child_setup()
            import pytest
            rc = int(pytest.main(BASE_ARGS + list(args)))
            verif_rec._dump_to(str(tmp / "rec.json"))
        except SystemExit as e:
            rc = int(e.code or 0) if isinstance(e.code, int) else 71
        except BaseException:  # noqa
            import traceback
            try:
                traceback.print_exc()
            except Exception:  # noqa
                pass
            rc = 72
        finally:
            try:
                sys.stdout.flush()
                sys.stderr.flush()
            except Exception:  # noqa
                pass
            os._exit(rc)
    # parent
    deadline = time.time() + timeout
    rc = None
    while True:
        w, status = os.waitpid(pid, os.WNOHANG)
        if w == pid:
            rc = os.waitstatus_to_exitcode(status)
            break
        if time.time() > deadline:
            try:
                os.killpg(pid, signal.SIGKILL)
            except Exception:  # noqa
                pass
            os.waitpid(pid, 0)
            res = _collect(tmp, None, t0, timed_out=True)
            _rm(tmp)
            return res
        time.sleep(0.005)
    res = _collect(tmp, rc, t0)
    _rm(tmp)
    return res


def run_subprocess(project: Path, args, env: dict | None = None, stdin: bytes = b"", timeout: float = 180,
                   cwd: Path | None = None, python: str | None = None) -> dict:
    tmp = Path(tempfile.mkdtemp(prefix="verif_sess_"))
    t0 = time.time()
    full_env = base_env(env)
    full_env["VERIF_SESSION_FILE"] = str(tmp / "session.json")
    full_env["VERIF_REC_FILE"] = str(tmp / "rec.json")
    if stdin:
        full_env.setdefault("FORCE_COLOR", "true")
    cmd = [python or sys.executable, "-m", "pytest"] + BASE_ARGS + list(args)
    try:
        p = subprocess.run(cmd, cwd=cwd or project, env=full_env, input=stdin, capture_output=True, timeout=timeout)
        (tmp / "stdout").write_bytes(p.stdout)
        (tmp / "stderr").write_bytes(p.stderr)
        res = _collect(tmp, p.returncode, t0)
    except subprocess.TimeoutExpired:
        res = _collect(tmp, None, t0, timed_out=True)
    _rm(tmp)
    return res


def _rm(p):
    import shutil
    shutil.rmtree(p, ignore_errors=True)


def snap_dir(root: Path, skip=(".pytest_cache", "__pycache__")) -> dict:
    """{relative path: sha256 hex} of every file below root"""
    out = {}
    for p in sorted(root.rglob("*")):
        if p.is_file() and not any(s in p.parts for s in skip):
            out[str(p.relative_to(root))] = hashlib.sha256(p.read_bytes()).hexdigest()
    return out


def outcomes(res) -> dict:
    """{nodeid: passed|failed|error|skipped|xfailed|xpassed} as pytest reports them"""
    out = {}
    sess = res.get("session") or {}
    reports = list(sess.get("reports", []))
    for w in res.get("workers", []):
        reports += w.get("reports", [])
    for nodeid, when, outcome, xf in reports:
        cur = out.get(nodeid)
        if when == "call":
            if xf:
                o = "xfailed" if outcome == "skipped" else "xpassed" if outcome == "passed" else outcome
            else:
                o = outcome
            if cur not in ("error",):
                out[nodeid] = o
        elif outcome == "failed":
            out[nodeid] = "error"
        elif outcome == "skipped" and when == "setup":
            out[nodeid] = "skipped"
        elif cur is None and when == "teardown":
            out[nodeid] = outcome
    return out
