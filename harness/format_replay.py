"""C20: a formatter-clean test file stays formatter-clean (black with the options of the project), an unclean
one is not re-formatted as a whole.  Cases come from spec/MC_Format.tla; the cleanliness of the result is judged
by an independent run of black with a Mode built from the same options."""
from __future__ import annotations

import json
import random
import shutil
import sys
import tempfile
from pathlib import Path

OPTS = {
    0: {},
    1: {"line-length": 40},
    2: {"line-length": 60},
    3: {"line-length": 120},
    4: {"skip-magic-trailing-comma": True},
    5: {"skip-string-normalization": True},
    6: {"preview": True, "line-length": 60},
}


def mode_for(opts: dict):
    import black
    m = black.FileMode()
    if "line-length" in opts:
        m.line_length = opts["line-length"]
    if opts.get("skip-magic-trailing-comma"):
        m.magic_trailing_comma = False
    if opts.get("skip-string-normalization"):
        m.string_normalization = False
    if opts.get("preview"):
        m.preview = True
    return m


def fmt(text, opts):
    import black
    return black.format_str(text, mode=mode_for(opts))


def value_expr(shape, limit, rng):
    """a Python expression for the observed value; its generated code is `shape` relative to the line limit"""
    # the line will be:     assert value == snapshot(<code>)   (4 + 26 + len(code) + 1 characters)
    room = limit - 31
    if shape == "short":
        return "[1, 2]"
    if shape in ("under", "at", "over"):
        target = room + {"under": -1, "at": 0, "over": 1}[shape] + rng.choice([0, 0, 0, 1 if shape == "over" else 0])
        n = max(1, target - 4)                      # ["aaa"] -> 4 characters besides the a's
        return '["a" * %d]' % n
    if shape == "nested":
        return '{"key%d" % i: [i, {"x": "y" * i}] for i in range(6)}'
    if shape == "multiline-str":
        return '"line one\\nline two \\nline three"'
    if shape == "trailing-comma":
        return '[["a", "b"], ["c" * %d], ("d",)]' % max(3, room // 2)
    if shape == "collapse":
        return '{"a": 1, "b": "x"}'
    raise ValueError(shape)


def pyproject(opts, fmtcmd):
    lines = []
    if opts:
        lines.append("[tool.black]")
        for k, v in opts.items():
            lines.append("%s = %s" % (k, str(v).lower() if isinstance(v, bool) else v))
    if fmtcmd:
        lines.append("[tool.inline-snapshot]")
        lines.append('format-command = "%s -m black -q --stdin-filename {filename} -"' % sys.executable)
    return "\n".join(lines) + "\n"


def run_case(case, seed):
    from . import c03lib, session_driver as sd
    c = case["c"]
    rng = random.Random("%s|%s" % (json.dumps(c, sort_keys=True), seed))
    popts = OPTS[c["opts"]]                               # what the [tool.black] section says
    loc = c.get("loc", "own")
    opts = {} if loc == "gitstop" else popts              # what black itself uses for the file (spec: EffOpts)
    limit = opts.get("line-length", 88)
    val = value_expr(c["shape"], limit, rng)
    old_arg = "" if c["cats"] == "create" else "[0]"
    if c["shape"] == "collapse":
        # a display that is exploded because it is too long becomes short enough for one line (the entry is fixed
        # in place, the trailing comma of the exploded display survives the edit)
        val = '{"a": 1, "b": "x"}'
        old_arg = '{"a": 1, "b": "%s"}' % ("y" * limit)
        if c["cats"] == "create":
            c = dict(c, cats="fix")
    extra = "    assert 1 == snapshot()\n" if c["cats"] == "create-fix" else ""
    src = ("from inline_snapshot import snapshot\n\n\ndef test_a():\n    value = %s\n    assert value == snapshot(%s)\n%s"
           % (val, old_arg, extra))
    if rng.random() < 0.5:
        # a multi-line string literal with lines that end in blanks / a tab: the formatter leaves them alone, the
        # file is formatter-clean all the same
        src = src.replace("def test_a():\n", 'def test_a():\n    text = """first line \nsecond\t\nthird\n"""\n', 1)
    src = fmt(src, opts)
    if not c["clean"]:
        src = src.replace("    value = ", "    value  =  ", 1).replace("def test_a():", "def test_a( ):", 1)
    root = Path(tempfile.mkdtemp(prefix="verif_fmt_"))
    try:
        proj = root / "proj"
        (proj / "tests").mkdir(parents=True)
        if loc == "own":
            (proj / "pyproject.toml").write_text(pyproject(popts, c["fmtcmd"]))
        else:
            # the options are one directory further up; the project's own pyproject.toml has no [tool.black]
            (root / "pyproject.toml").write_text(pyproject(popts, False))
            (proj / "pyproject.toml").write_text('[project]\nname = "pkg"\nversion = "1"\n')
            if loc == "gitstop":
                (proj / ".git").mkdir()                   # black stops here: its defaults apply
        f = proj / "tests" / "test_f.py"
        f.write_text(src)
        cwd = {"root": proj, "sub": proj / "tests", "outside": root}[c["cwd"]]
        args = ["--inline-snapshot=create,fix"] + ([str(proj)] if c["cwd"] == "outside" else [])
        r = sd.run_fork(proj, args, cwd=cwd, timeout=120)
        new = f.read_text()
        mism = []
        info = {"options": popts, "location": loc, "effective_options": opts, "cwd": c["cwd"], "old": src, "new": new, "rc": r["rc"]}
        # the independent oracle agrees with black's own command line about the effective options
        if loc != "own" and c["clean"]:
            import subprocess
            chk = subprocess.run([sys.executable, "-m", "black", "--check", "-q", str(f)], cwd=str(cwd), capture_output=True, text=True)
            if chk.returncode != 0 and fmt(new, opts) == new:
                mism.append({"clause": "oracle", "props": [], "detail": {"black_cli": chk.stderr[-300:]}})
        if new == src:
            mism.append({"clause": "nothing-written", "props": [], "detail": {"stdout": r["stdout"][-600:]}})
            return mism, info
        try:
            now_clean = fmt(new, opts) == new
        except Exception as e:  # noqa
            mism.append({"clause": "unparsable", "props": ["C20", "C03"], "detail": repr(e)[:200]})
            return mism, info
        if c["clean"]:
            if not now_clean:
                f1 = fmt(new, opts)
                stable = fmt(f1, opts) == f1
                mism.append({"clause": "clean" if stable else "formatter-unstable", "props": ["C20"] if stable else [],
                             "detail": {"spec_clean_after": case["clean_after"], "formatted_would_be": f1}})
        elif not c["fmtcmd"]:
            if not c03lib.outside_preserved(src, new):
                mism.append({"clause": "unclean-reformatted", "props": ["C20"], "detail": {}})
        if bool(case["clean_after"]) != now_clean and c["clean"] and not c["fmtcmd"] and not mism:
            mism.append({"clause": "spec-drift", "props": [], "detail": {}})
        return mism, info
    finally:
        shutil.rmtree(root, ignore_errors=True)


def _worker(args):
    cases, seed = args
    out = []
    for c in cases:
        try:
            mism, info = run_case(c, seed)
            out.append({"id": json.dumps(c["c"], sort_keys=True), "mism": mism, "info": info if mism else {k: info[k] for k in ("options", "cwd", "rc")}})
        except Exception:  # noqa
            import traceback
            out.append({"id": json.dumps(c["c"], sort_keys=True), "error": traceback.format_exc()[-1500:]})
    return out
