"""C06, disabled sessions: when inline-snapshot is not active (disable flag, CI, xdist, xfail-marked test)
snapshot(v) must return v itself.  Configurations come from spec/MC_Config.tla (field `active` = the
specification's Active(cfg)); the project probes the identity in ordinary tests before and after
xfail-marked tests and inside them."""
from __future__ import annotations

import random
import shutil
import tempfile
from pathlib import Path

from .config_replay import CATS, CI_NAMES

TEST = '''from inline_snapshot import snapshot
import pytest
import verif_rec as _r

V = [1, 2]
T = ("a", 1.5)


def probe(tag):
    s = snapshot([1, 2])
    t = snapshot(T)
    _r.note(tag, "identity-literal-arg", type(s) is list and s == [1, 2])
    _r.note(tag, "identity", t is T)
    if t is T:
        _r.note(tag, "plain", len(t) == 2 and t[1] + 1 == 2.5 and list(t) == ["a", 1.5])


def test_1():
    probe("t1")


@pytest.mark.xfail
def test_xfail_failing():
    probe("x1")
    assert False


def test_2():
    probe("t2")


@pytest.mark.xfail(reason="expected")
def test_xfail_passing():
    probe("x2")


def test_3():
    probe("t3")
    assert 1 == snapshot(1)
'''


def run_case(case, seed):
    from . import session_driver as sd
    rng = random.Random("%s|%s|identity" % (case["id"], seed))
    d = Path(tempfile.mkdtemp(prefix="verif_idn_"))
    try:
        (d / "test_idn.py").write_text(TEST)
        pp = []
        if case["pp"]["on"]:
            pp.append("default-flags = %r" % (case["pp"]["f"],))
        if case["pptui"]["on"]:
            pp.append("default-flags-tui = %r" % (case["pptui"]["f"],))
        (d / "pyproject.toml").write_text("[tool.inline-snapshot]\n" + "\n".join(pp).replace("'", '"') + "\n")
        args = []
        if case["cli"]["on"]:
            f = list(case["cli"]["f"])
            rng.shuffle(f)
            args.append("--inline-snapshot=" + ",".join(f))
        env = {}
        if case["env"]["on"]:
            env["INLINE_SNAPSHOT_DEFAULT_FLAGS"] = ",".join(case["env"]["f"])
        if case["ci"]:
            env[rng.choice(CI_NAMES)] = "true"
        if case["pycharm"]:
            env["PYCHARM_HOSTED"] = "1"
        if case["xdist"] != "no" or rng.random() < 0.3:
            args = ["-p", "xdist.plugin"] + args
        if case["xdist"] == "n2":
            args += ["-n", rng.choice(["1", "2"])]
        elif case["xdist"] == "n0":
            args += ["-n", "0"]
        r = sd.run_fork(d, args, env=env, stdin=b"n\n" * 6, tty=bool(case["tty"]), timeout=120)
        mism = []
        notes = {}
        for tag, what, val in r["extra"]:
            notes[(tag, what)] = val
        if case["error"]:
            return mism, {"args": args, "skipped": "usage error"}
        for tag in ("t1", "x1", "t2", "x2", "t3"):
            inactive = tag.startswith("x") or not case["active"]
            if (tag, "identity") not in notes:
                mism.append({"clause": "probe-missing", "props": ["C06"], "detail": {"tag": tag, "rc": r["rc"], "stdout": r["stdout"][-800:]}})
                continue
            if inactive and not notes[(tag, "identity")]:
                mism.append({"clause": "identity", "props": ["C06"],
                             "detail": {"test": tag, "why_inactive": "xfail" if tag.startswith("x") else
                                        ("ci" if case["ci"] and not case["pycharm"] else "xdist" if case["xdist"] == "n2" else "disable")}})
            if inactive and notes.get((tag, "plain")) is False:
                mism.append({"clause": "plain-behaviour", "props": ["C06"], "detail": {"test": tag}})
            if inactive and notes.get((tag, "identity-literal-arg")) is False:
                mism.append({"clause": "identity", "props": ["C06"], "detail": {"test": tag, "arg": "literal"}})
        return mism, {"args": args, "env": env, "notes": sorted("%s:%s=%s" % (k[0], k[1], v) for k, v in notes.items())}
    finally:
        shutil.rmtree(d, ignore_errors=True)


def _worker(args):
    cases, seed = args
    out = []
    for c in cases:
        try:
            mism, info = run_case(c, seed)
            out.append({"id": c["id"], "mism": mism, "info": info})
        except Exception:  # noqa
            import traceback
            out.append({"id": c["id"], "error": traceback.format_exc()[-1500:]})
    return out
