"""Process pool used by the drivers (16 workers; every worker imports the implementation from the
current /repo tree, or from $VERIF_REPO when a scratch copy is being examined)."""
from __future__ import annotations

import multiprocessing as mp
import os

WORKERS = int(os.environ.get("VERIF_WORKERS", "16"))


def _init():
    import sys
    import warnings
    warnings.simplefilter("ignore")
    sys.dont_write_bytecode = True
    sys.setrecursionlimit(10000)


def chunks(items, n):
    return [items[i:i + n] for i in range(0, len(items), n)]


def parallel_map(fn, jobs, workers: int = WORKERS, maxtasks: int | None = 40):
    """jobs: list of picklable arguments; returns results in order."""
    if not jobs:
        return []
    ctx = mp.get_context("fork")
    with ctx.Pool(min(workers, len(jobs)), initializer=_init, maxtasksperchild=maxtasks) as pool:
        return pool.map(fn, jobs, chunksize=1)
