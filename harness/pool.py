"""Process pool used by the drivers (16 workers; every worker imports the implementation from the
current /repo tree, or from $VERIF_REPO when a scratch copy is being examined)."""
from __future__ import annotations

import multiprocessing as mp
import os

WORKERS = int(os.environ.get("VERIF_WORKERS", "16"))


def _init():
    import sys
    import warnings
    warnings.simplefilter("ignore")
    sys.dont_write_bytecode = True
    sys.setrecursionlimit(10000)


def chunks(items, n):
    return [items[i:i + n] for i in range(0, len(items), n)]


def parallel_map(fn, jobs, workers: int = WORKERS, maxtasks: int | None = 40):
    """jobs: list of picklable arguments; returns results in order.

    concurrent.futures instead of multiprocessing.Pool: a worker process that dies (a crash of the interpreter in
    a generated program) breaks the pool with an exception instead of leaving map() waiting for ever.  Workers are
    recycled by starting a fresh executor for every batch of jobs."""
    import concurrent.futures as cf
    from concurrent.futures.process import BrokenProcessPool
    if not jobs:
        return []
    ctx = mp.get_context("fork")
    out = []
    batch = max(1, workers * (maxtasks or 40))
    for i in range(0, len(jobs), batch):
        part = jobs[i:i + batch]
        try:
            with cf.ProcessPoolExecutor(min(workers, len(part)), mp_context=ctx, initializer=_init) as ex:
                out += list(ex.map(fn, part, chunksize=1))
        except BrokenProcessPool:
            # find the job that kills its worker: one job per process
            for job in part:
                try:
                    with cf.ProcessPoolExecutor(1, mp_context=ctx, initializer=_init) as ex:
                        out.append(ex.submit(fn, job).result())
                except BrokenProcessPool:
                    raise RuntimeError("a worker process died while running %s on %.300r" % (getattr(fn, "__name__", fn), job))
    return out
