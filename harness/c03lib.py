"""Independent measurements for C03: where are the parentheses of the snapshot() calls in the
original text, and is everything outside them preserved (bytes / syntax tree)?"""
from __future__ import annotations

import ast
import io
import tokenize


def call_spans(source: str, fname: str = "snapshot"):
    """[(start_offset, end_offset)] of the text between the parentheses of every `fname(...)` call that is
    not nested inside another such call (offsets into `source`), found by tokenising - independent of
    asttokens / executing which the tool uses."""
    import re
    bom = 1 if source.startswith("\ufeff") else 0
    body = source[bom:]
    norm = body.replace("\r\n", "\n").replace("\r", "\n")
    toks = list(tokenize.generate_tokens(io.StringIO(norm).readline))
    # line starts in the ORIGINAL text (line ends: \r\n, \r, \n - as the Python tokenizer sees them)
    starts = [bom]
    for m in re.finditer(r"\r\n|\r|\n", body):
        starts.append(bom + m.end())

    def off(pos):
        return starts[pos[0] - 1] + pos[1]
    spans = []
    i = 0
    while i < len(toks) - 1:
        t = toks[i]
        if t.type == tokenize.NAME and t.string == fname and toks[i + 1].string == "(" and \
                (i == 0 or toks[i - 1].string != "."):
            depth = 0
            j = i + 1
            while j < len(toks):
                if toks[j].string in "([{" and toks[j].type == tokenize.OP:
                    depth += 1
                elif toks[j].string in ")]}" and toks[j].type == tokenize.OP:
                    depth -= 1
                    if depth == 0:
                        break
                j += 1
            spans.append((off(toks[i + 1].end), off(toks[j].start)))
            i = j
        i += 1
    return spans


def outside_segments(source: str, spans):
    segs = []
    pos = 0
    for a, b in spans:
        segs.append(source[pos:a])
        pos = b
    segs.append(source[pos:])
    return segs


def outside_preserved(orig: str, new: str, spans=None, allow_import=True):
    """True iff `new` is `orig` with only the text inside the given spans replaced (plus, optionally,
    inserted ``from inline_snapshot import external|HasRepr`` lines)."""
    spans = call_spans(orig) if spans is None else spans
    segs = outside_segments(orig, spans)
    if allow_import:
        new = strip_added_imports(orig, new)
    pos = 0
    if not new.startswith(segs[0]):
        return False
    pos = len(segs[0])
    for s in segs[1:-1]:
        k = new.find(s, pos)
        if k < 0:
            return False
        pos = k + len(s)
    if len(segs) > 1:
        return new.endswith(segs[-1]) and len(new) - len(segs[-1]) >= pos
    return len(new) == pos


IMPORT_LINES = ("from inline_snapshot import external", "from inline_snapshot import HasRepr")


def strip_added_imports(orig: str, new: str) -> str:
    ol = orig.splitlines(keepends=True)
    nl = new.splitlines(keepends=True)
    have = [l.strip() for l in ol]
    out = []
    i = 0
    while i < len(nl):
        l = nl[i]
        if l.strip() in IMPORT_LINES and have.count(l.strip()) < [x.strip() for x in nl].count(l.strip()):
            # an added import comes as "\nfrom ... import ...\n": drop the line and the blank line before it
            if out and out[-1].strip() == "":
                out.pop()
            have.append(l.strip())
            i += 1
            continue
        out.append(l)
        i += 1
    return "".join(out)


class _Mask(ast.NodeTransformer):
    def __init__(self, fname):
        self.fname = fname

    def visit_Call(self, node):
        if isinstance(node.func, ast.Name) and node.func.id == self.fname:
            return ast.Call(func=node.func, args=[], keywords=[])
        return self.generic_visit(node)


def masked_dump(source: str, fname: str = "snapshot", drop_imports=True) -> str:
    tree = ast.parse(source.lstrip("\ufeff"))
    if drop_imports:
        tree.body = [n for n in tree.body
                     if not (isinstance(n, ast.ImportFrom) and n.module == "inline_snapshot"
                             and all(a.name in ("external", "HasRepr") for a in n.names))]
    tree = _Mask(fname).visit(tree)
    return ast.dump(tree)
