"""C19: the same project through the three public ways of running a session - a real pytest session, the
public Example.run_pytest and the public Example.run_inline (plus the harness' own in-process driver, so that
it cannot drift) - must give the same changed files and the same pending categories."""
from __future__ import annotations

import contextlib
import io
import os
import random
import re
import shutil
import tempfile
from pathlib import Path

CATS = {1: "create", 2: "fix", 3: "trim", 4: "update"}
RECMOD = str(Path(__file__).resolve().parent / "recmod")


class Capture:
    """records the other operand of == (how the public helpers report what they saw)"""
    def __init__(self):
        self.value = None
        self.seen = False

    def __eq__(self, other):
        self.value = other
        self.seen = True
        return True

    __hash__ = None


def shown_categories(stdout: str):
    """categories for which the plugin's report shows a section (`--- Create snapshots ---`)"""
    clean = re.sub(r"\x1b\[[0-9;]*m", "", stdout)
    return sorted({m.group(1).lower() for m in re.finditer(r"[-─═]+ (Create|Fix|Trim|Update) snapshots [-─═]+", clean)})


def changed(before: dict, after: dict):
    return {k: v for k, v in after.items() if before.get(k) != v and k.endswith(".py")}


def run_project(files: dict, F, seed, pyproject: str | None = None, subdir: bool = False):
    """-> per driver: {"changed": {name: text}, "categories": [...], "error": ...}"""
    from inline_snapshot.testing import Example
    from . import inline_driver, session_driver as sd
    if RECMOD not in os.environ.get("PYTHONPATH", ""):
        os.environ["PYTHONPATH"] = RECMOD + os.pathsep + os.environ.get("PYTHONPATH", "")
    proj = dict(files)
    if pyproject is not None:
        proj["pyproject.toml"] = pyproject
    flags = ",".join(F)
    res = {}
    # 1. public in-process helper
    cats, ch, rs = Capture(), Capture(), Capture()
    try:
        with contextlib.redirect_stdout(io.StringIO()), contextlib.redirect_stderr(io.StringIO()):
            Example(proj).run_inline(["--inline-snapshot=" + flags] if F else [], reported_categories=cats,
                                     changed_files=ch, raises=rs)
        res["run_inline"] = {"changed": {k: v for k, v in (ch.value or {}).items() if k.endswith(".py")},
                             "categories": sorted(cats.value or []), "error": None}
    except BaseException as e:  # noqa
        res["run_inline"] = {"changed": None, "categories": None, "error": "%s: %s" % (type(e).__name__, str(e)[:200])}
    # 2. public subprocess helper (report added so that every pending category is shown)
    ch2, rep, rc = Capture(), Capture(), Capture()
    try:
        with contextlib.redirect_stdout(io.StringIO()) as out, contextlib.redirect_stderr(io.StringIO()):
            Example(proj).run_pytest(["-p", "no:cacheprovider", "--inline-snapshot=" + ",".join(list(F) + ["report"])],
                                     changed_files=ch2, report=rep, returncode=rc,
                                     env={"PYTEST_DISABLE_PLUGIN_AUTOLOAD": "1", "PYTEST_ADDOPTS": "-p inline_snapshot.pytest_plugin"})
        text = out.getvalue()
        res["run_pytest"] = {"changed": {k: v for k, v in (ch2.value or {}).items() if k.endswith(".py")},
                             "categories": shown_categories(text), "error": None, "rc": rc.value}
    except BaseException as e:  # noqa
        res["run_pytest"] = {"changed": None, "categories": None, "error": "%s: %s" % (type(e).__name__, str(e)[:200])}
    # 3. a real session in that directory
    d = Path(tempfile.mkdtemp(prefix="verif_drv_"))
    try:
        for name, content in proj.items():
            p = d / name
            p.parent.mkdir(parents=True, exist_ok=True)
            p.write_text(content)
        r = sd.run_fork(d, ["--inline-snapshot=" + ",".join(list(F) + ["report"])], timeout=120)
        after = {str(p.relative_to(d)): p.read_text() for p in d.rglob("*.py")}
        res["plugin"] = {"changed": changed(files, after), "categories": shown_categories(r["stdout"]),
                         "error": None if r["rc"] in (0, 1) else "rc=%s %s" % (r["rc"], r["stdout"][-300:]), "rc": r["rc"]}
    finally:
        shutil.rmtree(d, ignore_errors=True)
    # 4. the harness' own in-process driver
    try:
        with contextlib.redirect_stderr(io.StringIO()):
            obs = inline_driver.run_session(proj, F)
        res["harness_inline"] = {"changed": changed(files, obs["files"]), "categories": obs.get("categories"),
                                 "error": (obs.get("finish_error") or obs.get("import_error") or [None])[0]}
    except BaseException as e:  # noqa
        res["harness_inline"] = {"changed": None, "categories": None, "error": repr(e)[:200]}
    return res


def compare(res):
    mism = []
    ref = res["plugin"]
    for d in ("run_pytest", "run_inline", "harness_inline"):
        o = res[d]
        props = ["C19"] if d != "harness_inline" else []
        if o["error"] or ref["error"]:
            if bool(o["error"]) != bool(ref["error"]):
                mism.append({"clause": "error", "props": props, "detail": {"driver": d, "error": o["error"], "plugin_error": ref["error"]}})
            continue
        if o["changed"] != ref["changed"]:
            names = sorted(set(o["changed"]) | set(ref["changed"]))
            diff = {n: {"plugin": ref["changed"].get(n), d: o["changed"].get(n)} for n in names if ref["changed"].get(n) != o["changed"].get(n)}
            mism.append({"clause": "files", "props": props, "detail": {"driver": d, "differs": diff}})
        if sorted(o["categories"] or []) != sorted(ref["categories"] or []):
            mism.append({"clause": "categories", "props": props,
                         "detail": {"driver": d, d: o["categories"], "plugin": ref["categories"]}})
    return mism
