"""Spec -> code for structural assignment: cases (term, value, approved set) emitted by spec/MC_Assign.tla are
rendered as `assert <value> == snapshot(<term>)`, executed by the real code, and the rewritten argument is
abstracted back and judged by the relations of C02 / C05 / C08 / C10 / C11 (and compared with the exact
prediction of the transcription, which is reported as *drift* when only it differs)."""
from __future__ import annotations

import ast
import json
import random
import zlib
from pathlib import Path

from . import render_assign as RA

CATS = {1: "create", 2: "fix", 3: "trim", 4: "update"}


def load_cases(out_dir: Path, *, seed: int, keep_every: int = 1):
    cases = []
    for f in sorted(out_dir.glob("term_*.json")):
        g = json.loads(f.read_text())
        for ci, c in enumerate(g["cases"]):
            for o in c["out"]:
                key = "%s|%d|%s|%s" % (f.name, ci, o["A"], seed)
                h = zlib.crc32(key.encode())
                if keep_every > 1 and h % keep_every != 0:
                    continue
                cases.append({"tm": g["tm"], "v": c["v"], "A": [CATS[x] for x in o["A"]], "exp_term": o["term"],
                              "eqold": c.get("eqold"), "eqnew": c.get("eqnew"),
                              "exp_cats": sorted(CATS[x] for x in o["cats"]),
                              "id": "%s#%d#%s" % (f.stem, ci, "".join(map(str, o["A"]))), "h": h})
    cases.sort(key=lambda r: r["h"])
    return cases


def user_ids(ids_kinds, ids_present):
    return [i for i in sorted(ids_present) if ids_kinds.get(i, ("?",))[0] in ("is", "fs", "sl")]


def judge(case, g, text, obs, seed):
    """-> list of mismatches"""
    from . import inline_driver
    tm, v, A = case["tm"], case["v"], case["A"]
    mism = []

    def mm(clause, props, detail):
        mism.append({"clause": clause, "props": props, "detail": detail, "run": case["id"], "A": A})

    if obs.get("import_error"):
        mm("import", ["C18"], obs["import_error"])
        return mism, None
    if obs.get("finish_error"):
        mm("finish", ["C18"], obs["finish_error"][:2])
        return mism, None
    # --- the answer of the comparison itself (C06 without flags; C07/C02: made to succeed so that the test goes on)
    if case.get("eqold") is not None and obs.get("log") and not RA.has_tag(tm, {"sn"}):
        want = case["eqnew"] if A else case["eqold"]
        got = obs["log"][0][2]
        if got != ("T" if want else "F"):
            mm("res", ["C06"] if not A else ["C07", "C02", "C08"], {"exp": "T" if want else "F", "got": got})
    new_text = obs["files"]["test_case.py"]
    try:
        args = inline_driver.snapshot_args(new_text)
        orig = inline_driver.snapshot_args(text)
    except SyntaxError as e:
        mm("syntax", ["C03", "C18"], str(e))
        return mism, None
    if RA.has_tag(tm, {"sn"}):
        # nested snapshot() calls are call sites of their own (their arguments change through their own site):
        # for these hostile programs completion (C18) and validity (C03) are judged - and C10: a nested call is
        # never edited through its parent: every nested call that the model keeps (its current value is matched
        # by the alignment, or its element is replaced one by one) is still there
        def nsn(t):
            if isinstance(t, dict):
                return (1 if t.get("t") == "sn" else 0) + sum(nsn(x) for x in t.values())
            if isinstance(t, list):
                return sum(nsn(x) for x in t)
            return 0
        if len(args) >= 1 and args[0][3] is not None:
            try:
                nt, _ = RA.alpha(args[0][3], g)
                if not RA.has_tag(nt, {"alien"}) and nsn(nt) < nsn(case["exp_term"]):
                    mm("nested-edited-through-parent", ["C10"], {"kept_by_model": nsn(case["exp_term"]), "found": nsn(nt),
                                                                 "new": args[0][2]})
            except Exception:  # noqa
                pass
        return mism, None
    if len(args) != 1 or args[0][3] is None:
        mm("sites-lost", ["C03"], {"got": len(args)})
        return mism, None
    new_term, new_ids = RA.alpha(args[0][3], g)
    old_term, old_ids = RA.alpha(orig[0][3], g)
    user = bool(user_ids(g.ids, old_ids))
    # --- categories
    cats = sorted(obs.get("categories", []))
    if cats != case["exp_cats"]:
        mm("cats", ["C10" if user else "C05"], {"exp": case["exp_cats"], "got": cats,
                                                "positional": RA._has_positional(tm)})
    # --- C05 at the property level: fix is reported exactly when the comparison fails
    if not user:
        equal = RA.veq(RA.ev(old_term), v)
        if equal and "fix" in cats:
            mm("fix-although-equal", ["C05"], {"positional": RA._has_positional(tm), "pos_class": RA.has_tag(tm, {"ct"}) and tm.get("c") == RA.POS_CLASS})
        if not equal and "fix" not in cats:
            mm("no-fix-although-unequal", ["C05"], {"positional": RA._has_positional(tm)})
    # --- nothing approved, nothing written (C04) / only approved categories
    if not A and new_text != text:
        mm("unapproved-write", ["C04"], {})
    if RA.has_tag(new_term, {"alien"}):
        mm("alien", ["C02", "C01"], {"new": args[0][2]})
        return mism, new_term
    # --- C02: every managed part agrees with the value once fix is applied
    if "fix" in A and not RA.managed_eq(new_term, v):
        mm("managed-eq", ["C02"], {"new": args[0][2]})
    # --- C05: update alone never changes the value; without fix no value changes at all
    if "fix" not in A and not RA.veq(RA.ev(new_term), RA.ev(old_term)):
        mm("value-changed-without-fix", ["C05"], {"new": args[0][2]})
    # --- C10: user-controlled parts verbatim, an ordered selection of the old ones
    ou, nu = user_ids(g.ids, old_ids), user_ids(g.ids, new_ids)
    it = iter(ou)
    if not all(any(x == y for y in it) for x in nu):
        mm("user-part-order", ["C10"], {"old": ou, "new": nu})
    for i in nu:
        if i in old_ids and old_ids[i] != new_ids[i]:
            mm("user-part-altered", ["C10"], {"id": i, "text": g.ids[i][1]})
    if "fix" not in A and ou != nu:
        mm("user-part-lost", ["C10"], {"old": ou, "new": nu})
    # --- C10 with the specification as oracle: every user-controlled part that the model keeps is still there
    def nuser(t):
        if isinstance(t, dict):
            return (1 if t.get("t") in ("is", "fs", "sl") else 0) + sum(nuser(x) for x in t.values())
        if isinstance(t, list):
            return sum(nuser(x) for x in t)
        return 0
    if nuser(new_term) < nuser(case["exp_term"]):
        mm("user-part-replaced", ["C10"], {"kept_by_model": nuser(case["exp_term"]), "found": nuser(new_term),
                                           "new": args[0][2]})
    # --- C11: with fix but without update, what is equal keeps its text
    if A == ["fix"]:
        c11(old_term, new_term, v, old_ids, new_ids, mm)
    # --- exact prediction of the transcription
    if RA.strip_ids(new_term) != case["exp_term"] and not mism:
        mm("drift", [], {"exp": case["exp_term"], "got": RA.strip_ids(new_term)})
    return mism, new_term


def c11(old_term, new_term, v, old_ids, new_ids, mm):
    """top-level relation (terms carry the unique ids of their hand-written leaves, so `==` on them means
    "the same source text"): the elements of the old display survive verbatim as far as a longest common
    subsequence with the new value allows, including the equal common prefix and suffix; dict entries /
    keyword arguments under a surviving key with an equal value survive verbatim"""
    t = old_term["t"]
    if t in ("lt", "tt") and new_term["t"] == t and v.get("t") == ("l" if t == "lt" else "t"):
        olds, news, vals = old_term["e"], new_term["e"], v["e"]
        if not all(_is_hand(x) for x in olds):
            return      # a canonical element is indistinguishable from a regenerated one
        eq = lambda a, b: RA.veq(RA.ev(a), b)
        want = RA.lcs(olds, vals, eq)
        surv = sum(1 for x in news if any(x == o for o in olds))
        if surv < want:
            mm("survivors", ["C11"], {"lcs": want, "verbatim_survivors": surv})
        k = 0
        while k < len(olds) and k < len(vals) and eq(olds[k], vals[k]):
            if k >= len(news) or news[k] != olds[k]:
                mm("prefix", ["C11"], {"index": k})
                break
            k += 1
        if not (k == len(olds) == len(vals)):
            s = 0
            while s < len(olds) - k and s < len(vals) - k and eq(olds[-1 - s], vals[-1 - s]):
                if s >= len(news) or news[-1 - s] != olds[-1 - s]:
                    mm("suffix", ["C11"], {"index": s})
                    break
                s += 1
    if t == "dt" and new_term["t"] == "dt" and v.get("t") == "d":
        for k, o in zip(old_term["k"], old_term["e"]):
            if k in v["k"] and RA.veq(RA.ev(o), v["e"][v["k"].index(k)]):
                if k not in new_term["k"] or new_term["e"][new_term["k"].index(k)] != o:
                    mm("entry", ["C11"], {"key": k})
    if t == "ct" and new_term["t"] == "ct" and v.get("t") == "c" and v["c"] == old_term["c"] and not old_term["p"]:
        for n, o in zip(old_term["kn"], old_term["ke"]):
            fs = RA.FIELDS[old_term["c"] - 1]
            is_def = fs[n - 1]["hasdef"] and v["f"][n - 1] == {"t": "i", "v": fs[n - 1]["def"]}
            if RA.veq(RA.ev(o), v["f"][n - 1]) and not is_def:
                if n not in new_term["kn"] or new_term["ke"][new_term["kn"].index(n)] != o:
                    mm("kwarg", ["C11"], {"field": n})


def _is_hand(x):
    t = x["t"]
    if t == "lit":
        return not x["canon"]
    if t in ("is", "fs", "ht", "sl"):
        return True
    if t in ("lt", "tt", "dt"):
        return bool(x["e"]) and all(_is_hand(y) for y in x["e"])
    return False


def session_obs(text, flags):
    """the same module in a real pytest session of the plugin with `report` next to the approved categories (every
    pending category is displayed by the plugin's report loop, only the approved ones may be written)"""
    import shutil
    import tempfile
    from . import session_driver as sd, srcio
    from .drivers_replay import shown_categories
    d = Path(tempfile.mkdtemp(prefix="verif_asn_"))
    try:
        srcio.write_source(d / "test_case.py", text)
        r = sd.run_fork(d, ["--inline-snapshot=" + ",".join(list(flags) + ["report"])], timeout=120)
        obs = {"log": r["log"], "categories": shown_categories(r["stdout"]), "import_error": None, "finish_error": None,
               "files": {"test_case.py": srcio.read_source(d / "test_case.py")}}
        if r["timed_out"] or r["session"] is None or "INTERNALERROR" in r["stdout"] or r["rc"] not in (0, 1):
            obs["finish_error"] = ["INTERNALERROR", r["stdout"][-600:], ""]
        return obs
    finally:
        shutil.rmtree(d, ignore_errors=True)


def replay_case(case, seed, chain=True, driver=None):
    from . import inline_driver
    rng = random.Random("%s|%s" % (case["id"], seed))
    g = RA.Gamma(rng, case["tm"], case["v"])
    text = RA.render(case["tm"], case["v"], g)
    if driver == "session":
        obs = session_obs(text, case["A"])
        mism, new_term = judge(case, g, text, obs, seed)
        return mism, {"atoms": g.atoms, "driver": "session"}, text, obs["files"]["test_case.py"]
    obs = inline_driver.run_session({"test_case.py": text}, case["A"])
    mism, new_term = judge(case, g, text, obs, seed)
    new_text = obs.get("files", {}).get("test_case.py")
    info = {"atoms": g.atoms, "class_kind": g.class_kind, "multiline": g.multiline}
    if chain and new_text is not None and RA.has_tag(case["tm"], {"sn"}) and not mism:
        obs2 = inline_driver.run_session({"test_case.py": new_text}, case["A"])
        if obs2.get("finish_error") or obs2.get("import_error"):
            mism.append({"clause": "second-run-error", "props": ["C18"], "run": case["id"], "A": case["A"],
                         "detail": (obs2.get("finish_error") or obs2.get("import_error"))[:2]})
    if chain and new_term is not None and not any(m["props"] for m in mism):
        # C08: the same session again changes nothing
        obs2 = inline_driver.run_session({"test_case.py": new_text}, case["A"])
        if obs2.get("finish_error") or obs2.get("import_error"):
            mism.append({"clause": "second-run-error", "props": ["C18", "C08"], "run": case["id"], "A": case["A"],
                         "detail": obs2.get("finish_error") or obs2.get("import_error")})
        elif obs2["files"]["test_case.py"] != new_text and RA.veq(RA.ev(new_term), case["v"]):
            mism.append({"clause": "second-run-writes", "props": ["C08"], "run": case["id"], "A": case["A"],
                         "detail": {"after2": obs2["files"]["test_case.py"]}})
        # C02: after create+fix the test passes with inline-snapshot disabled iff no user part disagrees
        if "fix" in case["A"]:
            ok = _passes_disabled(new_text)
            want = RA.veq(RA.ev(new_term), case["v"])
            if ok != want:
                mism.append({"clause": "disabled-run", "props": ["C02"], "run": case["id"], "A": case["A"],
                             "detail": {"passes": ok, "expected": want}})
    return mism, info, text, new_text


def _passes_disabled(text):
    """run the module with snapshot(x) = x and Is(x) = x (what --inline-snapshot=disable does)"""
    import verif_rec
    src = text.replace("from inline_snapshot import snapshot, Is",
                       "snapshot = lambda x: x\nIs = lambda x: x")
    import sys
    import types
    mod = types.ModuleType("verif_disabled")
    sys.modules["verif_disabled"] = mod
    g = mod.__dict__
    try:
        exec(compile(src, "<disabled>", "exec"), g)
        g["test_a"]()
        return True
    except AssertionError:
        return False
    finally:
        sys.modules.pop("verif_disabled", None)
        verif_rec.reset()


def _worker(args):
    cases, seed = args[0], args[1]
    driver = args[2] if len(args) > 2 else None
    import contextlib
    import io
    out = []
    for case in cases:
        try:
            with contextlib.redirect_stderr(io.StringIO()):
                mism, info, text, new_text = replay_case(case, seed, driver=driver)
            out.append({"id": case["id"], "mism": mism, "info": info, "text": text if mism else None,
                        "new": new_text if mism else None})
        except Exception:  # noqa
            import traceback
            out.append({"id": case["id"], "error": traceback.format_exc()[-2000:]})
    return out


def replay_tail(case, seed):
    """C08 at the structural level: all four categories approved, a second (empty) snapshot follows the compared
    one in the same test; the second identical session must not change a byte"""
    from . import inline_driver
    rng = random.Random("%s|%s|tail" % (case["id"], seed))
    g = RA.Gamma(rng, case["tm"], case["v"])
    text = RA.render(case["tm"], case["v"], g, extra_tests="    with _r.at(1, 2):\n        assert 'tail' == snapshot()\n")
    flags = ["create", "fix", "trim", "update"]
    obs = inline_driver.run_session({"test_case.py": text}, flags)
    mism = []

    def mm(clause, props, detail):
        mism.append({"clause": clause, "props": props, "detail": detail, "run": case["id"], "A": flags})
    if obs.get("finish_error") or obs.get("import_error"):
        mm("finish", ["C18"], (obs.get("finish_error") or obs.get("import_error"))[:2])
        return mism, {"atoms": g.atoms}, text, None
    t1 = obs["files"]["test_case.py"]
    try:
        args = inline_driver.snapshot_args(t1)
    except SyntaxError as e:
        mm("syntax", ["C03"], str(e))
        return mism, {"atoms": g.atoms}, text, t1
    repairable = bool(case.get("eqnew"))
    if repairable and (len(args) < 2 or args[1][2] is None):
        mm("later-snapshot-not-reached", ["C02", "C08"], {"after_run1": t1})
    obs2 = inline_driver.run_session({"test_case.py": t1}, flags)
    if obs2.get("finish_error") or obs2.get("import_error"):
        mm("second-run-error", ["C18", "C08"], (obs2.get("finish_error") or obs2.get("import_error"))[:2])
    elif repairable and obs2["files"]["test_case.py"] != t1:
        mm("second-run-writes", ["C08"], {"after_run2": obs2["files"]["test_case.py"]})
    elif repairable and any(t["exc"] or t["missing"] or t["incorrect"] for t in obs2["tests"]):
        mm("second-run-fails", ["C08"], {"tests": obs2["tests"]})
    return mism, {"atoms": g.atoms, "class_kind": g.class_kind}, text, t1


def _worker_tail(args):
    cases, seed = args[0], args[1]
    import contextlib
    import io
    out = []
    for case in cases:
        try:
            with contextlib.redirect_stderr(io.StringIO()):
                mism, info, text, new_text = replay_tail(case, seed)
            out.append({"id": case["id"], "mism": mism, "info": info, "text": text if mism else None,
                        "new": new_text if mism else None})
        except Exception:  # noqa
            import traceback
            out.append({"id": case["id"], "error": traceback.format_exc()[-2000:]})
    return out


def replay_orders(case, seed):
    """C09 at the structural level: fix and update are both pending; approving fix then update, update then fix, or
    both at once (each session starting from what the previous one wrote) must end with the same program"""
    from . import inline_driver
    rng = random.Random("%s|%s|orders" % (case["id"], seed))
    g = RA.Gamma(rng, case["tm"], case["v"])
    text = RA.render(case["tm"], case["v"], g)
    finals = {}
    mism = []
    for name, seq in (("fix,update", [["fix", "update"]]), ("fix;update", [["fix"], ["update"]]), ("update;fix", [["update"], ["fix"]])):
        t = text
        for flags in seq:
            obs = inline_driver.run_session({"test_case.py": t}, flags)
            if obs.get("finish_error") or obs.get("import_error"):
                mism.append({"clause": "finish", "props": ["C18"], "run": case["id"], "A": flags,
                             "detail": (obs.get("finish_error") or obs.get("import_error"))[:2]})
                return mism, {"atoms": g.atoms}, text, None
            t = obs["files"]["test_case.py"]
        try:
            finals[name] = (ast.dump(ast.parse(t)), t)
        except SyntaxError as e:
            mism.append({"clause": "syntax", "props": ["C03"], "run": case["id"], "A": name, "detail": str(e)})
            return mism, {"atoms": g.atoms}, text, t
    if len({d for d, _ in finals.values()}) > 1:
        def arg(t):
            try:
                return inline_driver.snapshot_args(t)[0][2]
            except Exception:  # noqa
                return None
        mism.append({"clause": "order-matters", "props": ["C09"], "run": case["id"], "A": ["fix", "update"],
                     "detail": {k: arg(t) for k, (_, t) in finals.items()}})
    return mism, {"atoms": g.atoms, "class_kind": g.class_kind}, text, finals["fix,update"][1]


def _worker_orders(args):
    cases, seed = args[0], args[1]
    import contextlib
    import io
    out = []
    for case in cases:
        try:
            with contextlib.redirect_stderr(io.StringIO()):
                mism, info, text, new_text = replay_orders(case, seed)
            out.append({"id": case["id"], "mism": mism, "info": info, "text": text if mism else None,
                        "new": new_text if mism else None})
        except Exception:  # noqa
            import traceback
            out.append({"id": case["id"], "error": traceback.format_exc()[-2000:]})
    return out


def replay_nested(case, seed):
    """C02 for nested snapshot() calls (each one is a call site of its own): one run with create and fix approved,
    a later empty snapshot in the same test; unless the end of the session fails (C18's business, known finding
    F5c) the rewritten module must pass when it is run with inline-snapshot disabled"""
    from . import inline_driver
    rng = random.Random("%s|%s|nested" % (case["id"], seed))
    g = RA.Gamma(rng, case["tm"], case["v"])
    text = RA.render(case["tm"], case["v"], g, extra_tests="    with _r.at(1, 2):\n        assert 'tail' == snapshot()\n")
    flags = ["create", "fix"]
    obs = inline_driver.run_session({"test_case.py": text}, flags)
    mism = []
    if obs.get("finish_error") or obs.get("import_error"):
        mism.append({"clause": "finish", "props": ["C18"], "run": case["id"], "A": flags,
                     "detail": (obs.get("finish_error") or obs.get("import_error"))[:2]})
        return mism, {"atoms": g.atoms}, text, None
    new = obs["files"]["test_case.py"]
    if RA.has_tag(case["tm"], {"is", "fs", "sl"}):
        return mism, {"atoms": g.atoms}, text, new         # a user-controlled part may disagree: never repaired
    try:
        ok = _passes_disabled(new)
        why = None
    except SyntaxError as e:
        mism.append({"clause": "syntax", "props": ["C03", "C18"], "run": case["id"], "A": flags, "detail": str(e)})
        return mism, {"atoms": g.atoms}, text, new
    except Exception as e:  # noqa
        ok, why = False, "%s: %s" % (type(e).__name__, str(e)[:200])
    if not ok:
        mism.append({"clause": "disabled-run", "props": ["C02"], "run": case["id"], "A": flags,
                     "detail": {"passes": False, "expected": True, "why": why, "answers": obs.get("log")}})
    return mism, {"atoms": g.atoms, "multiline": g.multiline}, text, new


def _worker_nested(args):
    cases, seed = args[0], args[1]
    import contextlib
    import io
    out = []
    for case in cases:
        try:
            with contextlib.redirect_stderr(io.StringIO()):
                mism, info, text, new_text = replay_nested(case, seed)
            out.append({"id": case["id"], "mism": mism, "info": info, "text": text if mism else None,
                        "new": new_text if mism else None})
        except Exception:  # noqa
            import traceback
            out.append({"id": case["id"], "error": traceback.format_exc()[-2000:]})
    return out


def replay_other_ops(case, seed):
    """C10 beyond `==`: the same term is only evaluated (never compared), or used as an `in` snapshot; with update
    (and trim / fix) approved the parts the user controls keep their source text and no value changes through update"""
    from . import inline_driver
    mism = []
    tm, v = case["tm"], case["v"]
    variants = [("never-compared", ["update"])]
    if tm["t"] == "lt" and v["t"] == "l" and v["e"]:
        variants += [("in", ["update"]), ("in", ["fix", "update"])]
    info, text = {}, None
    for name, flags in variants:
        rng = random.Random("%s|%s|%s" % (case["id"], seed, name))
        g = RA.Gamma(rng, tm, v)
        base = RA.render(tm, v, g)
        head, body = base.split("def test_a():\n", 1)
        term_text = body.split("== snapshot(", 1)[1].rsplit(")\n", 1)[0]
        if name == "never-compared":
            text = head + "def test_a():\n    with _r.at(1, 1):\n        s = snapshot(%s)\n" % term_text
        else:
            vals = ", ".join(g.value(x) for x in v["e"])
            text = head + "def test_a():\n    with _r.at(1, 1):\n        for _x in [%s]:\n            assert _x in snapshot(%s)\n" % (vals, term_text)
        obs = inline_driver.run_session({"test_case.py": text}, flags)
        info = {"atoms": g.atoms, "variant": name, "flags": flags}
        if obs.get("finish_error") or obs.get("import_error"):
            mism.append({"clause": "finish", "props": ["C18"], "run": case["id"], "A": flags, "variant": name,
                         "detail": (obs.get("finish_error") or obs.get("import_error"))[:2]})
            continue
        new = obs["files"]["test_case.py"]
        try:
            args = inline_driver.snapshot_args(new)
            orig = inline_driver.snapshot_args(text)
            nt, new_ids = RA.alpha(args[0][3], g)
            ot, old_ids = RA.alpha(orig[0][3], g)
        except Exception as e:  # noqa
            mism.append({"clause": "syntax", "props": ["C03"], "run": case["id"], "A": flags, "variant": name, "detail": repr(e)[:200]})
            continue
        ou, nu = user_ids(g.ids, old_ids), user_ids(g.ids, new_ids)
        lost = [i for i in ou if i not in nu]
        altered = [i for i in nu if i in old_ids and old_ids[i] != new_ids[i]]
        # an `in` snapshot may lose an element as a whole (trim / not approved here) - never with update alone
        if altered or (lost and "fix" not in flags):
            mism.append({"clause": "user-part-altered" if altered else "user-part-lost", "props": ["C10"], "run": case["id"], "A": flags,
                         "variant": name, "detail": {"old": ou, "new": nu, "text": [g.ids[i][1] for i in (altered or lost)], "written": args[0][2]}})
        if flags == ["update"] and not RA.has_tag(nt, {"alien"}) and not RA.veq(RA.ev(nt), RA.ev(ot)):
            mism.append({"clause": "value-changed-without-fix", "props": ["C05"], "run": case["id"], "A": flags, "variant": name,
                         "detail": {"written": args[0][2]}})
    return mism, info, text, None


def _worker_other_ops(args):
    cases, seed = args[0], args[1]
    import contextlib
    import io
    out = []
    for case in cases:
        try:
            with contextlib.redirect_stderr(io.StringIO()):
                mism, info, text, new_text = replay_other_ops(case, seed)
            out.append({"id": case["id"], "mism": mism, "info": info, "text": text if mism else None, "new": None})
        except Exception:  # noqa
            import traceback
            out.append({"id": case["id"], "error": traceback.format_exc()[-2000:]})
    return out
