"""gamma / alpha for the structural-assignment specification (spec/ISAssign.tla, MC_Assign.tla).

Abstract terms and values are the tagged records of the spec (JSON).  Every hand-written leaf and every
user-controlled part gets a unique integer ID embedded in its source text, so that "survived verbatim"
is observable: the sub-expression with that ID must occur unchanged in the rewritten argument.
"""
from __future__ import annotations

import ast
import random

ATOM_POOLS = [
    [0, 1, 2],
    [-3, 7, 10 ** 15],
    ["a", "b", "c"],
    [1.5, 2.5, -0.5],
    [None, True, "x"],
    [b"x", b"y", b""],
    ["it's", 'say "hi"', "a\\b"],
]
STR_POOLS = [["a", "b", "c"], ["x y", "z", "ww"]]
KEY_POOLS = [{11: "a", 12: "b", 13: "c"}, {11: 1, 12: 2, 13: 3}, {11: "k 1", 12: 2, 13: None}, {11: (1, 2), 12: "x", 13: b"y"}]
CLASS_KINDS = ["dataclass", "attrs", "namedtuple", "pydantic"]
# class 3 of the model: a class whose code has positional arguments only - a subclass of collections.defaultdict.
# Its two fields are (default_factory, items): atoms are bound to factories / to small dicts ({} = the default)
FACTORIES = ["list", "int", "str"]
POS_CLASS = 3


def has_tag(t, tags):
    if isinstance(t, dict):
        if t.get("t") in tags:
            return True
        return any(has_tag(x, tags) for x in t.values())
    if isinstance(t, list):
        return any(has_tag(x, tags) for x in t)
    return False


class Gamma:
    def __init__(self, rng: random.Random, tm, v, class_kind=None, multiline=None):
        self.rng = rng
        strs = has_tag(tm, {"fs"})
        self.atoms = list(rng.choice(STR_POOLS if strs else ATOM_POOLS))
        self.keys = rng.choice(KEY_POOLS)
        positional = has_tag(tm, {"ct"}) and _has_positional(tm)
        kinds = [k for k in CLASS_KINDS if not (positional and k == "pydantic")]
        self.class_kind = class_kind or rng.choice(kinds)
        self.multiline = rng.random() < 0.35 if multiline is None else multiline
        self.next_id = 100
        self.ids = {}          # id -> (kind, source text)
        self.field = None      # position inside a C3(...) call that is being rendered (None = ordinary atoms)

    def atext(self, a):
        """source text of atom a at the current position"""
        if self.field == 0:
            return FACTORIES[a]
        if self.field == 1:
            return "{}" if a == 0 else "{'k': %r}" % (self.atoms[a],)
        return repr(self.atoms[a])

    # ----- values
    def value(self, v):
        t = v["t"]
        if t == "i":
            return repr(self.atoms[v["v"]])
        if t == "l":
            return "[" + ", ".join(self.value(x) for x in v["e"]) + "]"
        if t == "t":
            xs = [self.value(x) for x in v["e"]]
            return "(" + ", ".join(xs) + ("," if len(xs) == 1 else "") + ")"
        if t == "d":
            return "{" + ", ".join("%r: %s" % (self.keys[k], self.value(x)) for k, x in zip(v["k"], v["e"])) + "}"
        if t == "c" and v["c"] == POS_CLASS:
            xs = []
            for j, x in enumerate(v["f"]):
                self.field = j
                xs.append(self.atext(x["v"]))
            self.field = None
            return "C3(%s)" % ", ".join(xs)
        if t == "c":
            return "C%d(%s)" % (v["c"], ", ".join("f%d=%s" % (j + 1, self.value(x)) for j, x in enumerate(v["f"])))
        raise ValueError(t)

    def _id(self, kind):
        self.next_id += 1
        return self.next_id

    def term(self, tm, depth=0):
        t = tm["t"]
        if t == "lit":
            r = self.atext(tm["v"])
            if tm["canon"]:
                return r
            i = self._id("lit")
            s = "(%s if %d else 0)" % (r, i)
            self.ids[i] = ("lit", s)
            return s
        if t == "is":
            i = self._id("is")
            s = "Is(%s if %d else 0)" % (self.atext(tm["v"]), i)
            self.ids[i] = ("is", s)
            return s
        if t == "fs":
            i = self._id("fs")
            s = "f\"{%r:.%d}\"" % (self.atoms[tm["v"]], i)
            self.ids[i] = ("fs", s)
            return s
        if t == "ht":
            i = self._id("ht")
            ctor = {"l": "list", "t": "tuple", "d": "dict"}[tm["val"]["t"]]
            s = "%s(%s if %d else 0)" % (ctor, self.value(tm["val"]), i)
            self.ids[i] = ("ht", s)
            return s
        if t == "sl":
            i = self._id("sl")
            inner = "(%s if %d else 0)" % (self.value(tm["val"]), i)
            k = tm["val"]["t"]
            s = "[*%s]" % inner if k == "l" else "(*%s,)" % inner if k == "t" else "{**%s}" % inner
            self.ids[i] = ("sl", s)
            return s
        if t == "sn":
            return "snapshot(%s)" % (self.term(tm["e"][0], depth + 1) if tm["e"] else "")
        if t in ("lt", "tt"):
            xs = [self.term(x, depth + 1) for x in tm["e"]]
            op, cl = ("[", "]") if t == "lt" else ("(", ")")
            if self.multiline and xs and depth == 0:
                body = "".join("\n        %s,  # e%d" % (x, j) for j, x in enumerate(xs))
                return op + body + "\n    " + cl
            return op + ", ".join(xs) + ("," if t == "tt" and len(xs) == 1 else "") + cl
        if t == "dt":
            xs = ["%r: %s" % (self.keys[k], self.term(x, depth + 1)) for k, x in zip(tm["k"], tm["e"])]
            if self.multiline and xs and depth == 0:
                return "{" + "".join("\n        %s," % x for x in xs) + "\n    }"
            return "{" + ", ".join(xs) + "}"
        if t == "ct" and tm["c"] == POS_CLASS:
            xs = []
            for j, x in enumerate(tm["p"]):
                self.field = j
                xs.append(self.term(x, depth + 1))
            self.field = None
            return "C3(%s)" % ", ".join(xs)
        if t == "ct":
            xs = [self.term(x, depth + 1) for x in tm["p"]]
            xs += ["f%d=%s" % (n, self.term(x, depth + 1)) for n, x in zip(tm["kn"], tm["ke"])]
            return "C%d(%s)" % (tm["c"], ", ".join(xs))
        raise ValueError(t)

    def classes(self, fields):
        """source of the class definitions; fields = [[{hasdef, def}, ...], ...]"""
        out = []
        k = self.class_kind
        if k == "dataclass":
            out.append("from dataclasses import dataclass\n")
        elif k == "attrs":
            out.append("import attrs\n")
        elif k == "namedtuple":
            out.append("from typing import NamedTuple\n")
        else:
            out.append("from typing import Any\nfrom pydantic import BaseModel\n")
        for c, fs in enumerate(fields, 1):
            if c == POS_CLASS:
                out.append("\n\nimport collections\n\n\nclass C3(collections.defaultdict):\n    pass\n")
                continue
            deco = {"dataclass": "@dataclass\n", "attrs": "@attrs.define\n", "namedtuple": "", "pydantic": ""}[k]
            base = {"dataclass": "", "attrs": "", "namedtuple": "(NamedTuple)", "pydantic": "(BaseModel)"}[k]
            out.append("\n\n%sclass C%d%s:\n" % (deco, c, base))
            for j, f in enumerate(fs, 1):
                ann = "Any" if k == "pydantic" else "object"
                if f["hasdef"]:
                    out.append("    f%d: %s = %r\n" % (j, ann, self.atoms[f["def"]]))
                else:
                    out.append("    f%d: %s\n" % (j, ann))
        return "".join(out) + "\n\n"


def _has_positional(tm):
    if isinstance(tm, dict):
        if tm.get("t") == "ct" and tm["p"]:
            return True
        return any(_has_positional(x) for x in tm.values())
    if isinstance(tm, list):
        return any(_has_positional(x) for x in tm)
    return False


FIELDS = [[{"hasdef": False, "def": 0}, {"hasdef": True, "def": 0}],
          [{"hasdef": False, "def": 0}, {"hasdef": True, "def": 1}, {"hasdef": True, "def": 0}],
          [{"hasdef": False, "def": 0}, {"hasdef": True, "def": 0}]]


def render(tm, v, g: Gamma, extra_tests=""):
    head = "from inline_snapshot import snapshot, Is\nimport verif_rec as _r\n"
    if has_tag(tm, {"ct"}) or has_tag(v, {"c"}):
        head += g.classes(FIELDS)
    else:
        head += "\n\n"
    term_text = g.term(tm)
    body = ("def test_a():\n"
            "    with _r.at(1, 1):\n"
            "        assert %s == snapshot(%s)\n" % (g.value(v), term_text))
    return head + body + extra_tests


# ---------------------------------------------------------------------------------------------------
# alpha
def _ifexp_id(node):
    if isinstance(node, ast.IfExp) and isinstance(node.test, ast.Constant) and isinstance(node.test.value, int) \
            and isinstance(node.orelse, ast.Constant) and node.orelse.value == 0:
        return node.test.value, node.body
    return None


def alpha(node, g: Gamma):
    """AST node of the (new) snapshot argument -> (abstract term, {id: ast.dump of the carrying node})"""
    ids = {}

    field = [None]           # position inside a C3(...) call (see Gamma.atext)

    def atom_of(n):
        if field[0] == 0:
            return FACTORIES.index(n.id) if isinstance(n, ast.Name) and n.id in FACTORIES else None
        if field[0] == 1:
            if not isinstance(n, ast.Dict):
                return None
            if not n.keys:
                return 0
            if len(n.keys) == 1 and isinstance(n.keys[0], ast.Constant) and n.keys[0].value == "k":
                save, field[0] = field[0], None
                try:
                    a = atom_of(n.values[0])
                finally:
                    field[0] = save
                return a if a else None
            return None
        try:
            val = ast.literal_eval(n)
        except Exception:  # noqa
            return None
        for i, a in enumerate(g.atoms):
            if type(a) is type(val) and a == val:
                return i
        return None

    def val_of(n):
        """a literal container/atom node -> abstract value"""
        a = atom_of(n)
        if a is not None and not isinstance(n, (ast.List, ast.Tuple, ast.Dict)):
            return {"t": "i", "v": a}
        if isinstance(n, ast.List):
            return {"t": "l", "e": [val_of(x) for x in n.elts]}
        if isinstance(n, ast.Tuple):
            return {"t": "t", "e": [val_of(x) for x in n.elts]}
        if isinstance(n, ast.Dict):
            return {"t": "d", "k": [key_of(k) for k in n.keys], "e": [val_of(x) for x in n.values]}
        return {"t": "alien", "text": ast.unparse(n)}

    def key_of(n):
        try:
            kv = ast.literal_eval(n)
        except Exception:  # noqa
            return -1
        for k, c in g.keys.items():
            if type(c) is type(kv) and c == kv:
                return k
        return -1

    def go(n):
        r = _ifexp_id(n)
        if r:
            i, body = r
            a = atom_of(body)
            ids[i] = ast.dump(n)
            if a is None:
                return {"t": "alien", "text": ast.unparse(n)}
            return {"t": "lit", "v": a, "canon": False, "id": i}
        if field[0] is not None and not isinstance(n, ast.Call):
            a = atom_of(n)
            return {"t": "lit", "v": a, "canon": True} if a is not None else {"t": "alien", "text": ast.unparse(n)}
        if isinstance(n, ast.Call) and isinstance(n.func, ast.Name):
            f = n.func.id
            if f == "snapshot":
                return {"t": "sn", "e": [go(a) for a in n.args[:1]]}
            if f == "Is" and len(n.args) == 1 and _ifexp_id(n.args[0]):
                i, body = _ifexp_id(n.args[0])
                ids[i] = ast.dump(n)
                a = atom_of(body)
                return {"t": "is", "v": a if a is not None else -1, "id": i}
            if f in ("list", "tuple", "dict") and len(n.args) == 1 and _ifexp_id(n.args[0]):
                i, body = _ifexp_id(n.args[0])
                ids[i] = ast.dump(n)
                return {"t": "ht", "val": val_of(body), "id": i}
            if f == "C3" and not n.keywords and not any(isinstance(a, ast.Starred) for a in n.args):
                ps = []
                for j, a in enumerate(n.args):
                    field[0] = j if j < 2 else None
                    ps.append(go(a))
                field[0] = None
                return {"t": "ct", "c": 3, "p": ps, "kn": [], "ke": []}
            if f in ("C1", "C2") and not any(isinstance(a, ast.Starred) for a in n.args) \
                    and all(k.arg and k.arg[0] == "f" and k.arg[1:].isdigit() for k in n.keywords):
                return {"t": "ct", "c": int(f[1:]), "p": [go(a) for a in n.args],
                        "kn": [int(k.arg[1:]) for k in n.keywords], "ke": [go(k.value) for k in n.keywords]}
            return {"t": "alien", "text": ast.unparse(n)}
        if isinstance(n, ast.JoinedStr):
            try:
                fv = n.values[0]
                i = int(ast.literal_eval(fv.format_spec.values[0]).lstrip("."))
                a = atom_of(fv.value)
                ids[i] = ast.dump(n)
                return {"t": "fs", "v": a if a is not None else -1, "id": i}
            except Exception:  # noqa
                return {"t": "alien", "text": ast.unparse(n)}
        if isinstance(n, (ast.List, ast.Tuple)):
            if any(isinstance(x, ast.Starred) for x in n.elts):
                if len(n.elts) == 1 and _ifexp_id(n.elts[0].value):
                    i, body = _ifexp_id(n.elts[0].value)
                    ids[i] = ast.dump(n)
                    return {"t": "sl", "val": val_of(body), "id": i}
                return {"t": "alien", "text": ast.unparse(n)}
            return {"t": "lt" if isinstance(n, ast.List) else "tt", "e": [go(x) for x in n.elts]}
        if isinstance(n, ast.Dict):
            if any(k is None for k in n.keys):
                if len(n.keys) == 1 and _ifexp_id(n.values[0]):
                    i, body = _ifexp_id(n.values[0])
                    ids[i] = ast.dump(n)
                    return {"t": "sl", "val": val_of(body), "id": i}
                return {"t": "alien", "text": ast.unparse(n)}
            return {"t": "dt", "k": [key_of(k) for k in n.keys], "e": [go(x) for x in n.values]}
        a = atom_of(n)
        if a is not None:
            return {"t": "lit", "v": a, "canon": True}
        return {"t": "alien", "text": ast.unparse(n)}

    return go(node), ids


def strip_ids(t):
    if isinstance(t, dict):
        return {k: strip_ids(x) for k, x in t.items() if k != "id"}
    if isinstance(t, list):
        return [strip_ids(x) for x in t]
    return t


# ---------------------------------------------------------------------------------------------------
# the relations of the properties, on abstract terms (independent re-statement in Python)
def veq(a, b):
    if a.get("t") != b.get("t"):
        return False
    t = a["t"]
    if t == "i":
        return a["v"] == b["v"]
    if t in ("l", "t"):
        return len(a["e"]) == len(b["e"]) and all(veq(x, y) for x, y in zip(a["e"], b["e"]))
    if t == "d":
        return len(a["k"]) == len(b["k"]) and all(k in b["k"] and veq(x, b["e"][b["k"].index(k)]) for k, x in zip(a["k"], a["e"]))
    if t == "c" and a["c"] == POS_CLASS:
        # a defaultdict compares like a dict: only the items, not the default_factory
        return b["c"] == POS_CLASS and veq(a["f"][1], b["f"][1])
    if t == "c":
        return a["c"] == b["c"] and all(veq(x, y) for x, y in zip(a["f"], b["f"]))
    return False


def ev(tm):
    t = tm["t"]
    if t in ("lit", "is", "fs"):
        return {"t": "i", "v": tm["v"]}
    if t == "sn":
        return ev(tm["e"][0]) if tm["e"] else {"t": "i", "v": 99}
    if t in ("ht", "sl"):
        return tm["val"]
    if t == "lt":
        return {"t": "l", "e": [ev(x) for x in tm["e"]]}
    if t == "tt":
        return {"t": "t", "e": [ev(x) for x in tm["e"]]}
    if t == "dt":
        return {"t": "d", "k": tm["k"], "e": [ev(x) for x in tm["e"]]}
    if t == "ct":
        fs = FIELDS[tm["c"] - 1]
        out = []
        for j in range(1, len(fs) + 1):
            if j <= len(tm["p"]):
                out.append(ev(tm["p"][j - 1]))
            elif j in tm["kn"]:
                out.append(ev(tm["ke"][tm["kn"].index(j)]))
            else:
                out.append({"t": "i", "v": fs[j - 1]["def"]})
        return {"t": "c", "c": tm["c"], "f": out}
    return {"t": "alien"}


def managed_eq(tm, v):
    t = tm["t"]
    if t in ("is", "fs", "sl", "sn"):
        return True
    if t in ("lit", "ht"):
        return veq(ev(tm), v)
    if t in ("lt", "tt"):
        return v.get("t") == ("l" if t == "lt" else "t") and len(v["e"]) == len(tm["e"]) and \
            all(managed_eq(x, y) for x, y in zip(tm["e"], v["e"]))
    if t == "dt":
        return v.get("t") == "d" and len(v["k"]) == len(tm["k"]) and \
            all(k in v["k"] and managed_eq(x, v["e"][v["k"].index(k)]) for k, x in zip(tm["k"], tm["e"]))
    if t == "ct":
        if v.get("t") != "c" or v["c"] != tm["c"]:
            return False
        fs = FIELDS[tm["c"] - 1]
        for j in range(1, len(fs) + 1):
            if j <= len(tm["p"]):
                if not managed_eq(tm["p"][j - 1], v["f"][j - 1]):
                    return False
            elif j in tm["kn"]:
                if not managed_eq(tm["ke"][tm["kn"].index(j)], v["f"][j - 1]):
                    return False
            elif v["f"][j - 1] != {"t": "i", "v": fs[j - 1]["def"]}:
                return False
        return True
    return False


def lcs(a, b, eq):
    m = [[0] * (len(b) + 1) for _ in range(len(a) + 1)]
    for i in range(1, len(a) + 1):
        for j in range(1, len(b) + 1):
            m[i][j] = m[i - 1][j - 1] + 1 if eq(a[i - 1], b[j - 1]) else max(m[i - 1][j], m[i][j - 1])
    return m[len(a)][len(b)]
