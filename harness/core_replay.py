"""Spec -> code: replay of the session cases that TLC emits from spec/MC_Core.tla into the real
implementation, and comparison of every observable with what the specification predicts.

A *run* = (ops, srcs, prog, F, imp) with the spec's prediction: result of every executed statement,
failed flag per test, pending categories per site, source argument per site after the session.
Mismatches are tagged with the properties whose statement they contradict.
"""
from __future__ import annotations

import json
import random
import zlib
from pathlib import Path

CATS = {1: "create", 2: "fix", 3: "trim", 4: "update"}


def load_runs(out_dir: Path, *, seed: int, keep_every: int = 1, max_runs: int | None = None,
              f_filter=None):
    """Flatten the emitted groups into runs; deterministic sub-sampling by a hash of the case."""
    runs = []
    for f in sorted(out_dir.glob("group_*.json")):
        g = json.loads(f.read_text())
        for ci, c in enumerate(g["cases"]):
            for r in c["runs"]:
                if f_filter is not None and not f_filter(r["F"]):
                    continue
                key = "%s|%d|%s|%s" % (f.name, ci, r["F"], seed)
                h = zlib.crc32(key.encode())
                if keep_every > 1 and h % keep_every != 0:
                    continue
                runs.append({"ops": g["ops"], "srcs": g["srcs"], "prog": c["prog"], "exp": r,
                             "id": "%s#%d#%s" % (f.stem, ci, "".join(map(str, r["F"]))), "h": h})
    runs.sort(key=lambda r: r["h"])
    if max_runs is not None:
        runs = runs[:max_runs]
    return runs


def natoms_of(run):
    if "chain" in run:
        return natoms_of_chain(run)
    m = 0
    for s in run["srcs"] + run["exp"]["srcs"]:
        for e in s["e"]:
            m = max(m, e["v"])
    for t in run["prog"]:
        for s in t:
            m = max(m, s["x"])
    return m + 1


def session_run(text: str, F, rng, mode=None):
    """the same module in a real pytest session (plugin/fork driver); observation in the shape of
    inline_driver.run_session (tests carry the pytest outcome instead of counters)"""
    import shutil
    import tempfile
    from pathlib import Path as P
    from . import session_driver as sd, srcio
    d = P(tempfile.mkdtemp(prefix="verif_proj_"))
    try:
        srcio.write_source(d / "test_case.py", text)
        if F:
            flags = list(F)
            rng.shuffle(flags)
            if mode in ("report",) or rng.random() < 0.4:
                # (report next to category flags: every pending category is shown, only the given ones are applied)
                flags.insert(rng.randrange(len(flags) + 1), "report")
            args = ["--inline-snapshot=" + ",".join(flags)]
        else:
            args = rng.choice([[], ["--inline-snapshot=report"], ["--inline-snapshot=short-report"]])
        r = sd.run_fork(d, args)
        oc = sd.outcomes(r)
        obs = {"tests": [], "import_error": None, "finish_error": None, "sites": None, "log": r["log"],
               "rc": r["rc"], "args": args, "stdout": r["stdout"][-3000:], "stderr": r["stderr"][-1500:]}
        if r["timed_out"] or r["session"] is None:
            obs["finish_error"] = ["session", "timed out" if r["timed_out"] else "no session record", r["stderr"][-800:]]
        elif r["session"].get("internal_errors") or "INTERNALERROR" in r["stdout"] or r["rc"] not in (0, 1):
            obs["finish_error"] = ["INTERNALERROR", (r["session"].get("internal_error_text") or r["stdout"])[-600:], ""]
        n = 1
        while ("test_case.py::test_%d" % n) in oc:
            o = oc["test_case.py::test_%d" % n]
            obs["tests"].append({"outcome": o, "exc": None if o == "passed" else [o, ""], "missing": 0, "incorrect": 0})
            n += 1
        obs["files"] = {"test_case.py": srcio.read_source(d / "test_case.py")}
        return obs
    finally:
        shutil.rmtree(d, ignore_errors=True)


def execute(text, F, driver, rng, twin=False):
    from . import inline_driver
    if driver == "session":
        return session_run(text, F, rng)
    files = {"test_case.py": text}
    if twin:
        # a second module with the same code (only its recorder logs nothing): call sites of different files are
        # different sites even when their code objects are equal
        files["test_twin.py"] = text.replace("import verif_rec as _r", "import verif_norec as _r", 1)
    obs = inline_driver.run_session(files, F)
    if twin:
        obs["tests"] = [t for t in obs["tests"] if t.get("file") != "test_twin.py"]
        obs["sites"] = {k: v for k, v in (obs.get("sites") or {}).items() if not k.startswith("test_twin.py:")}
    return obs


def compare(ops, srcs, prog, beta, text, exp, obs, driver, F, run_id):
    """all clauses for one executed session: `text` is the module before the session, `srcs` the abstract
    sources before it, `exp` the specification's prediction, `obs` what the implementation did"""
    from . import inline_driver, render_core
    mism = []

    def mm(clause, props, detail):
        mism.append({"clause": clause, "props": props, "detail": detail, "run": run_id, "F": F, "ops": ops})

    if obs.get("import_error"):
        mm("import", ["C18"], obs["import_error"])
        return mism
    if obs.get("finish_error"):
        mm("finish", ["C18"], obs["finish_error"][:2])
        return mism
    # --- results of the statements
    got = {}
    for t, j, out in obs["log"]:
        got.setdefault(t, []).append(out)
    for ti, test in enumerate(prog, 1):
        e = exp["res"][ti - 1]
        g = got.get(ti, [])
        # the spec logs "-" for evaluate-only statements
        g = ["-" if j < len(test) and test[j]["op"] in ("none", "chg", "dget") and x == "T" else x for j, x in enumerate(g)]
        g = ["UE" if x == "UsageError" else "EX" if x == "ValueError" else x for x in g]
        if g != e:
            te = any(x == "TE" for x in e) or any(x == "TE" for x in g)
            ue = any(x == "UE" for x in e) or any(x == "UE" for x in g)
            if ue:
                mm("res-reeval", ["C14"], {"test": ti, "exp": e, "got": g})
            elif not F:
                mm("res", ["C06"], {"test": ti, "exp": e, "got": g})
            else:
                mm("res", (["C06"] if te else []) + ["C07", "C02"], {"test": ti, "exp": e, "got": g})
    # --- test verdicts (counters as the plugin's fixture evaluates them / pytest outcomes)
    for ti, tr in enumerate(obs["tests"], 1):
        failed = tr["exc"] is not None or tr["missing"] > 0 or tr["incorrect"] > 0
        if ti - 1 < len(exp["failed"]) and failed != exp["failed"][ti - 1]:
            mm("failed", ["C07"], {"test": ti, "exp": exp["failed"][ti - 1], "got": failed,
                                   "exc": tr["exc"], "missing": tr["missing"], "incorrect": tr["incorrect"],
                                   "spec_miss": exp["miss"][ti - 1], "spec_inc": exp["inc"][ti - 1]})
    if driver == "session":
        # exit status of the session: non-zero iff some test failed or errored
        exp_rc = 1 if any(exp["failed"]) else 0
        if obs["rc"] != exp_rc:
            mm("rc", ["C07"], {"exp": exp_rc, "got": obs["rc"], "args": obs["args"]})
        if len(obs["tests"]) != len(prog):
            mm("tests-lost", ["C07"], {"exp": len(prog), "got": len(obs["tests"])})
    # --- pending categories per site
    orig = inline_driver.snapshot_args(text)
    line_to_site = {"test_case.py:%d:%d" % (l, c): i for i, (l, c, _, _) in enumerate(orig, 1)}
    pend = {i: [] for i in range(1, len(ops) + 1)}
    for key, cats in (obs["sites"] or {}).items():
        if key in line_to_site:
            pend[line_to_site[key]] = cats
        else:
            mm("site-key", ["C14"], {"key": key})
    for i in range(1, len(ops) + 1):
        if obs["sites"] is None:
            break
        e = sorted(CATS[c] for c in exp["pending"][i - 1])
        if sorted(pend[i]) != e:
            mm("pending", ["C05"], {"site": i, "exp": e, "got": sorted(pend[i])})
    # --- the source arguments after the session
    new_text = obs["files"].get("test_case.py")
    try:
        new = inline_driver.snapshot_args(new_text)
    except SyntaxError as e:
        mm("syntax", ["C03"], str(e))
        return mism
    if len(new) != len(ops):
        mm("sites-lost", ["C03"], {"exp": len(ops), "got": len(new)})
        return mism
    from . import c03lib
    if not c03lib.outside_preserved(text, new_text):
        # a formatter-clean file may be re-formatted as a whole: then the syntax tree outside must be identical
        if c03lib.masked_dump(text) != c03lib.masked_dump(new_text) or not _black_clean(text):
            mm("outside", ["C03"], {"orig": text, "new": new_text})

    def norm(x):
        return {"def": x["def"], "e": [dict(k=y["k"], v=y["v"], canon=y["canon"]) for y in x["e"]]}
    for i, op in enumerate(ops, 1):
        a = render_core.alpha_src(beta, op, new[i - 1][3], i)
        e = norm(exp["srcs"][i - 1])
        if a != e:
            props = ["C05"]
            if e == norm(srcs[i - 1]):
                props.append("C04")      # nothing approved for this site, yet it changed
                props.append("C03")      # ... a snapshot that is not being changed must be preserved
            if {"create", "fix"} <= set(F):
                props.append("C02")
            if not srcs[i - 1]["def"] and "create" in F:
                props.append("C01")
            mm("newsrc", props, {"site": i, "exp": e, "got": a, "arg": new[i - 1][2]})
    return mism


def _black_clean(text):
    try:
        import black
        return black.format_str(text, mode=black.FileMode()) == text
    except Exception:  # noqa
        return False


def prepare(run, seed):
    from . import render_core
    rng = random.Random("%s|%s" % (run["id"], seed))
    ops, prog = run["ops"], run["prog"]
    need = max(natoms_of(run), 2 if render_core.has_chg(prog) else 1)
    carrier = rng.choice(render_core.CARRIERS) if run.get("mutate") else None
    beta = render_core.Beta(rng, need, ops, render_core.needs_order(ops, prog), carrier)
    return rng, beta


def replay_one(run, seed: int, driver=None):
    """Concretise, execute against the real code, abstract, compare.  Returns (mismatches, info, text, obs)."""
    from . import render_core
    rng, beta = prepare(run, seed)
    ops, srcs, prog, exp = run["ops"], run["srcs"], run["prog"], run["exp"]
    imp = bool(exp.get("imp", False))
    text = render_core.render(ops, srcs, prog, beta, imp, rng, run.get("placement"), bool(run.get("mutate")))
    if run.get("layout"):
        text = render_core.apply_layout(text, run["layout"], rng)
    F = [CATS[c] for c in exp["F"]]
    twin = bool(run.get("twin")) and driver != "session"
    obs = execute(text, F, driver, rng, twin=twin)
    info = {"beta": beta.name, "F": F, "imp": imp, "driver": driver or "inline", "layout": run.get("layout"), "twin": twin}
    mism = compare(ops, srcs, prog, beta, text, exp, obs, driver, F, run["id"])
    if twin and not obs.get("finish_error") and not obs.get("import_error"):
        a = obs["files"].get("test_case.py")
        b = obs["files"].get("test_twin.py")
        if isinstance(a, str) and isinstance(b, str) and b.replace("import verif_norec as _r", "import verif_rec as _r", 1) != a:
            mism.append({"clause": "twin-differs", "props": ["C14", "C01"], "run": run["id"], "F": F, "ops": ops,
                         "detail": {"case": a, "twin": b}})
    for m in mism:
        m["layout"] = run.get("layout")
    return mism, info, text, obs


def replay_chain(run, seed: int, driver=None):
    """A history of sessions: every session starts from the text the previous one really wrote.
    run["chain"] = list of predicted sessions.  Returns (mismatches, info, texts)."""
    from . import render_core
    rng, beta = prepare(run, seed)
    ops, srcs, prog = run["ops"], run["srcs"], run["prog"]
    chain = run["chain"]
    imp = bool(chain[0].get("imp", False)) if chain else False
    text = render_core.render(ops, srcs, prog, beta, imp, rng, run.get("placement"), bool(run.get("mutate")))
    texts = [text]
    mism = []
    cur = srcs
    Fs = []
    for k, exp in enumerate(chain, 1):
        F = [CATS[c] for c in exp["F"]]
        Fs.append(F)
        obs = execute(text, F, driver, rng)
        ms = compare(ops, cur, prog, beta, text, exp, obs, driver, F, run["id"])
        for m in ms:
            m["step"] = k
        mism += ms
        if any(m["clause"] in ("import", "finish", "syntax", "sites-lost") for m in ms):
            break
        text = obs["files"]["test_case.py"]
        texts.append(text)
        cur = exp["srcs"]
    info = {"beta": beta.name, "Fs": Fs, "imp": imp, "driver": driver or "inline"}
    return mism, info, texts


def natoms_of_chain(run):
    m = 0
    for s in run["srcs"] + [x for c in run["chain"] for x in c["srcs"]]:
        for e in s["e"]:
            m = max(m, e["v"])
    for t in run["prog"]:
        for s in t:
            m = max(m, s["x"])
    return m + 1


def _worker(args):
    runs, seed = args[0], args[1]
    driver = args[2] if len(args) > 2 else None
    import io
    import contextlib
    out = []
    for run in runs:
        try:
            with contextlib.redirect_stderr(io.StringIO()):
                mism, info, text, obs = replay_one(run, seed, driver)
            out.append({"id": run["id"], "mism": mism, "info": info,
                        "text": text if mism else None,
                        "new": obs.get("files", {}).get("test_case.py") if mism else None})
        except Exception as e:  # machinery failure, reported as such
            import traceback
            out.append({"id": run["id"], "error": traceback.format_exc()[-2000:]})
    return out


def load_chain8(out_dir: Path, *, seed: int, keep_every: int = 1):
    runs = []
    for f in sorted(out_dir.glob("group_*.json")):
        g = json.loads(f.read_text())
        for ci, c in enumerate(g["cases"]):
            for k, chain in enumerate(c["chains"]):
                key = "%s|%d|%d|%s" % (f.name, ci, k, seed)
                h = zlib.crc32(key.encode())
                if keep_every > 1 and h % keep_every != 0:
                    continue
                runs.append({"ops": g["ops"], "srcs": g["srcs"], "prog": c["prog"], "chain": chain,
                             "id": "%s#%d#c%d" % (f.stem, ci, k), "h": h})
    runs.sort(key=lambda r: r["h"])
    return runs


def load_chain9(out_dir: Path, *, seed: int, keep_every: int = 1):
    cases = []
    for f in sorted(out_dir.glob("group_*.json")):
        g = json.loads(f.read_text())
        for ci, c in enumerate(g["cases"]):
            key = "%s|%d|%s" % (f.name, ci, seed)
            h = zlib.crc32(key.encode())
            if keep_every > 1 and h % keep_every != 0:
                continue
            cases.append({"ops": g["ops"], "srcs": g["srcs"], "prog": c["prog"], "chains": c["chains"],
                          "atonce": c["atonce"], "confluent": c["confluent"], "final": c["final"],
                          "id": "%s#%d" % (f.stem, ci), "h": h})
    cases.sort(key=lambda r: r["h"])
    return cases


def _worker_chain8(args):
    runs, seed = args[0], args[1]
    driver = args[2] if len(args) > 2 else None
    import contextlib
    import io
    out = []
    for run in runs:
        try:
            with contextlib.redirect_stderr(io.StringIO()):
                mism, info, texts = replay_chain(run, seed, driver)
            for m in mism:
                if m.get("step", 1) >= 2 and "C08" not in m["props"]:
                    d = m["detail"]
                    if m["clause"] == "pending" and set(d["got"]) - {"update"} == set(d["exp"]) - {"update"} \
                            and len(texts) == 3:
                        # only an `update` more than predicted: "shows no pending diff" allows an update whose
                        # formatted result equals the present text - probe it by approving it
                        rng = random.Random(run["id"])
                        obs = execute(texts[2], ["update"], driver, rng)
                        if obs["files"].get("test_case.py") == texts[2] and not obs.get("finish_error"):
                            m["clause"] = "empty-diff-update"
                            m["props"] = ["C05"]
                            continue
                    m["props"] = m["props"] + ["C08"]
            # the direct no-op clause: the second of two identical sessions changes no byte
            if len(texts) == 3:
                Fs = info["Fs"]
                if texts[2] != texts[1]:
                    mism.append({"clause": "second-run-writes", "props": ["C08"], "run": run["id"], "F": Fs[1],
                                 "ops": run["ops"], "detail": {"Fs": Fs}})
            out.append({"id": run["id"], "mism": mism, "info": info, "texts": texts if mism else None})
        except Exception:  # noqa
            import traceback
            out.append({"id": run["id"], "error": traceback.format_exc()[-2000:]})
    return out


def _worker_chain9(args):
    cases, seed = args[0], args[1]
    driver = args[2] if len(args) > 2 else None
    import ast
    import contextlib
    import io
    out = []
    for case in cases:
        try:
            finals = []
            mism = []
            allc = [("atonce", case["atonce"])] + [("path%d" % i, c) for i, c in enumerate(case["chains"])]
            for name, chain in allc:
                run = dict(case, chain=chain)
                with contextlib.redirect_stderr(io.StringIO()):
                    ms, info, texts = replay_chain(run, seed, driver)
                for m in ms:
                    m["path"] = name
                mism += ms
                if len(texts) != len(chain) + 1:
                    continue        # the history broke (reported above under its own clause)
                finals.append((name, info["Fs"], ast.dump(ast.parse(texts[-1])), texts[-1]))
            ref = finals[0] if finals and finals[0][0] == "atonce" else None
            for name, Fs, dump, text in (finals[1:] if ref else []):
                if dump != ref[2]:
                    mism.append({"clause": "order-matters", "props": ["C09"], "run": case["id"], "F": [],
                                 "ops": case["ops"],
                                 "detail": {"spec_confluent": case["confluent"], "order": Fs, "atonce": ref[1],
                                            "final_in_order": text, "final_at_once": ref[3]}})
                    break
            out.append({"id": case["id"], "mism": mism, "npaths": len(case["chains"]),
                        "texts": [finals[0][3]] if mism and finals else None, "beta": info["beta"]})
        except Exception:  # noqa
            import traceback
            out.append({"id": case["id"], "error": traceback.format_exc()[-2000:]})
    return out
