"""Spec -> code: replay of the session cases that TLC emits from spec/MC_Core.tla into the real
implementation, and comparison of every observable with what the specification predicts.

A *run* = (ops, srcs, prog, F, imp) with the spec's prediction: result of every executed statement,
failed flag per test, pending categories per site, source argument per site after the session.
Mismatches are tagged with the properties whose statement they contradict.
"""
from __future__ import annotations

import json
import random
import zlib
from pathlib import Path

CATS = {1: "create", 2: "fix", 3: "trim", 4: "update"}


def load_runs(out_dir: Path, *, seed: int, keep_every: int = 1, max_runs: int | None = None,
              f_filter=None):
    """Flatten the emitted groups into runs; deterministic sub-sampling by a hash of the case."""
    runs = []
    for f in sorted(out_dir.glob("group_*.json")):
        g = json.loads(f.read_text())
        for ci, c in enumerate(g["cases"]):
            for r in c["runs"]:
                if f_filter is not None and not f_filter(r["F"]):
                    continue
                key = "%s|%d|%s|%s" % (f.name, ci, r["F"], seed)
                h = zlib.crc32(key.encode())
                if keep_every > 1 and h % keep_every != 0:
                    continue
                runs.append({"ops": g["ops"], "srcs": g["srcs"], "prog": c["prog"], "exp": r,
                             "id": "%s#%d#%s" % (f.stem, ci, "".join(map(str, r["F"]))), "h": h})
    runs.sort(key=lambda r: r["h"])
    if max_runs is not None:
        runs = runs[:max_runs]
    return runs


def natoms_of(run):
    m = 0
    for s in run["srcs"] + run["exp"]["srcs"]:
        for e in s["e"]:
            m = max(m, e["v"])
    for t in run["prog"]:
        for s in t:
            m = max(m, s["x"])
    return m + 1


def session_run(text: str, F, rng, mode=None):
    """the same module in a real pytest session (plugin/fork driver); observation in the shape of
    inline_driver.run_session (tests carry the pytest outcome instead of counters)"""
    import shutil
    import tempfile
    from pathlib import Path as P
    from . import session_driver as sd
    d = P(tempfile.mkdtemp(prefix="verif_proj_"))
    try:
        (d / "test_case.py").write_text(text)
        if F:
            flags = list(F)
            rng.shuffle(flags)
            if mode in ("report",):
                flags.append("report")
            args = ["--inline-snapshot=" + ",".join(flags)]
        else:
            args = rng.choice([[], ["--inline-snapshot=report"], ["--inline-snapshot=short-report"]])
        r = sd.run_fork(d, args)
        oc = sd.outcomes(r)
        obs = {"tests": [], "import_error": None, "finish_error": None, "sites": None, "log": r["log"],
               "rc": r["rc"], "args": args, "stdout": r["stdout"][-3000:], "stderr": r["stderr"][-1500:]}
        if r["timed_out"] or r["session"] is None:
            obs["finish_error"] = ["session", "timed out" if r["timed_out"] else "no session record", r["stderr"][-800:]]
        elif r["session"].get("internal_errors") or "INTERNALERROR" in r["stdout"] or r["rc"] not in (0, 1):
            obs["finish_error"] = ["INTERNALERROR", (r["session"].get("internal_error_text") or r["stdout"])[-600:], ""]
        n = 1
        while ("test_case.py::test_%d" % n) in oc:
            o = oc["test_case.py::test_%d" % n]
            obs["tests"].append({"outcome": o, "exc": None if o == "passed" else [o, ""], "missing": 0, "incorrect": 0})
            n += 1
        obs["files"] = {"test_case.py": (d / "test_case.py").read_text()}
        return obs
    finally:
        shutil.rmtree(d, ignore_errors=True)


def replay_one(run, seed: int, driver=None):
    """Concretise, execute against the real code, abstract, compare.  Returns (mismatches, info)."""
    from . import inline_driver, render_core

    rng = random.Random("%s|%s" % (run["id"], seed))
    ops, srcs, prog, exp = run["ops"], run["srcs"], run["prog"], run["exp"]
    beta = render_core.Beta(rng, max(natoms_of(run), 1), ops, render_core.needs_order(ops, prog))
    imp = bool(exp.get("imp", False))
    text = render_core.render(ops, srcs, prog, beta, imp, rng)
    F = [CATS[c] for c in exp["F"]]
    if driver == "session":
        obs = session_run(text, F, rng)
    else:
        obs = inline_driver.run_session({"test_case.py": text}, F)
    mism = []
    info = {"beta": beta.name, "F": F, "imp": imp, "driver": driver or "inline"}

    def mm(clause, props, detail):
        mism.append({"clause": clause, "props": props, "detail": detail, "run": run["id"],
                     "F": F, "ops": ops})

    if obs.get("import_error"):
        mm("import", ["C18"], obs["import_error"])
        return mism, info, text, obs
    if obs.get("finish_error"):
        mm("finish", ["C18"], obs["finish_error"][:2])
        return mism, info, text, obs
    # --- results of the statements
    got = {}
    for t, j, out in obs["log"]:
        got.setdefault(t, []).append(out)
    for ti, test in enumerate(prog, 1):
        e = exp["res"][ti - 1]
        g = got.get(ti, [])
        # the spec logs "-" for evaluate-only statements
        g = ["-" if prog[ti - 1][j]["op"] == "none" and x == "T" else x for j, x in enumerate(g)]
        if g != e:
            te = any(x == "TE" for x in e) or any(x == "TE" for x in g)
            if not F:
                mm("res", ["C06"], {"test": ti, "exp": e, "got": g})
            else:
                mm("res", (["C06"] if te else []) + ["C07", "C02"], {"test": ti, "exp": e, "got": g})
    # --- test verdicts (what the plugin's fixture would report)
    for ti, tr in enumerate(obs["tests"], 1):
        failed = tr["exc"] is not None or tr["missing"] > 0 or tr["incorrect"] > 0
        if ti - 1 < len(exp["failed"]) and failed != exp["failed"][ti - 1]:
            mm("failed", ["C07"], {"test": ti, "exp": exp["failed"][ti - 1], "got": failed,
                                   "exc": tr["exc"], "missing": tr["missing"], "incorrect": tr["incorrect"],
                                   "spec_miss": exp["miss"][ti - 1], "spec_inc": exp["inc"][ti - 1]})
    # --- pending categories per site
    orig = inline_driver.snapshot_args(text)
    line_to_site = {"test_case.py:%d:%d" % (l, c): i for i, (l, c, _, _) in enumerate(orig, 1)}
    pend = {i: [] for i in range(1, len(ops) + 1)}
    for key, cats in (obs["sites"] or {}).items():
        if key in line_to_site:
            pend[line_to_site[key]] = cats
        else:
            mm("site-key", ["C14"], {"key": key})
    if driver == "session":
        # exit status of the session: non-zero iff some test failed or errored
        exp_rc = 1 if any(exp["failed"]) else 0
        if obs["rc"] != exp_rc:
            mm("rc", ["C07"], {"exp": exp_rc, "got": obs["rc"], "args": obs["args"]})
        if len(obs["tests"]) != len(prog):
            mm("tests-lost", ["C07"], {"exp": len(prog), "got": len(obs["tests"])})
    for i in range(1, len(ops) + 1):
        if obs["sites"] is None:
            break
        e = sorted(CATS[c] for c in exp["pending"][i - 1])
        if sorted(pend[i]) != e:
            mm("pending", ["C05"], {"site": i, "exp": e, "got": sorted(pend[i])})
    # --- the source arguments after the session
    new_text = obs["files"].get("test_case.py")
    try:
        new = inline_driver.snapshot_args(new_text)
    except SyntaxError as e:
        mm("syntax", ["C03"], str(e))
        return mism, info, text, obs
    if len(new) != len(ops):
        mm("sites-lost", ["C03"], {"exp": len(ops), "got": len(new)})
        return mism, info, text, obs
    for i, op in enumerate(ops, 1):
        a = render_core.alpha_src(beta, op, new[i - 1][3])
        e = exp["srcs"][i - 1]
        e = {"def": e["def"], "e": [dict(k=x["k"], v=x["v"], canon=x["canon"]) for x in e["e"]]}
        if a != e:
            props = ["C05"]
            if e == {"def": srcs[i - 1]["def"], "e": [dict(k=x["k"], v=x["v"], canon=x["canon"]) for x in srcs[i - 1]["e"]]}:
                props.append("C04")      # nothing approved for this site, yet it changed
            if {"create", "fix"} <= set(F):
                props.append("C02")
            if not srcs[i - 1]["def"] and "create" in F:
                props.append("C01")
            mm("newsrc", props, {"site": i, "exp": e, "got": a, "arg": new[i - 1][2]})
    info["nontrivial"] = bool(F) and new_text != text
    return mism, info, text, obs


def _worker(args):
    runs, seed = args[0], args[1]
    driver = args[2] if len(args) > 2 else None
    import io
    import contextlib
    out = []
    for run in runs:
        try:
            with contextlib.redirect_stderr(io.StringIO()):
                mism, info, text, obs = replay_one(run, seed, driver)
            out.append({"id": run["id"], "mism": mism, "info": info,
                        "text": text if mism else None,
                        "new": obs.get("files", {}).get("test_case.py") if mism else None})
        except Exception as e:  # machinery failure, reported as such
            import traceback
            out.append({"id": run["id"], "error": traceback.format_exc()[-2000:]})
    return out
