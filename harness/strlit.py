"""Binding of spec/ISStrLit.tla to the implementation (C12): every abstract string (sequence of character
classes) emitted by TLC is concretised with seeded representatives per class, created as a snapshot through
the real tool in several contexts / formatter configurations, and read back with ast.literal_eval."""
from __future__ import annotations

import ast
import io
import json
import random
import tokenize
import zlib
from pathlib import Path

CLASSES = ["sp", "tab", "nl", "cr", "sq", "dq", "bs", "a", "u", "np", "x"]
REPS = {
    "sp": [" "], "tab": ["\t"], "nl": ["\n"], "cr": ["\r"], "sq": ["'"], "dq": ['"'], "bs": ["\\"],
    "a": ["a", "n", "x", "N", "u", "U", "0", "#", "{", "}", "%", "r", "t", "f", "b"],
    "u": ["é", "ß", "€", "中", "Ω", "ñ"],
    "np": ["\x00", "\x0c", "\x85", " ", "\x1b", "\ud800", "﻿", "\x7f", "​", "\x1c"],
    "x": ["😀", "𝔘", "🀄"],
}
BYTE_REPS = {
    "sp": [b" "], "tab": [b"\t"], "nl": [b"\n"], "cr": [b"\r"], "sq": [b"'"], "dq": [b'"'], "bs": [b"\\"],
    "a": [b"a", b"n", b"x", b"0", b"#"], "u": [b"\xc3", b"\xa9"], "np": [b"\x00", b"\x0c", b"\x7f"], "x": [b"\xf0", b"\xff"],
}
CONTEXTS = ["top", "list", "dictval", "dictkey", "tuple", "in", "getitem", "nested2"]


def load_cases(out_dir: Path, seed: int, keep_every: int = 1):
    cases = []
    for f in sorted(out_dir.glob("pre_*.json")):
        for c in json.loads(f.read_text())["cases"]:
            key = "%s|%s" % (c["s"], seed)
            h = zlib.crc32(key.encode())
            if keep_every > 1 and h % keep_every:
                continue
            cases.append({"s": c["s"], "triple": c["triple"], "h": h})
    cases.sort(key=lambda c: c["h"])
    return cases


def concretise(classes, rng, as_bytes=False):
    reps = BYTE_REPS if as_bytes else REPS
    parts = [rng.choice(reps[CLASSES[c]]) for c in classes]
    return (b"" if as_bytes else "").join(parts)


def expr_for(ctx, k):
    """(test body template, function building the expected value of the snapshot argument)"""
    v = "V[%d]" % k
    if ctx == "top":
        return "assert %s == snapshot()" % v, lambda s: s
    if ctx == "list":
        return "assert [%s, 1] == snapshot()" % v, lambda s: [s, 1]
    if ctx == "dictval":
        return "assert {'k': %s} == snapshot()" % v, lambda s: {"k": s}
    if ctx == "dictkey":
        return "assert {%s: 0} == snapshot()" % v, lambda s: {s: 0}
    if ctx == "tuple":
        return "assert (%s,) == snapshot()" % v, lambda s: (s,)
    if ctx == "in":
        return "assert %s in snapshot()" % v, lambda s: [s]
    if ctx == "getitem":
        return "assert snapshot()['k'] == %s" % v, lambda s: {"k": s}
    if ctx == "nested2":
        return "assert [[%s], {'a': (%s, 0)}] == snapshot()" % (v, v), lambda s: [[s], {"a": (s, 0)}]
    raise ValueError(ctx)


def render(values, ctxs):
    out = ["from inline_snapshot import snapshot\n\nV = [\n"]
    for v in values:
        out.append("    %r,\n" % (v,))
    out.append("]\n\n\n")
    for k, ctx in enumerate(ctxs):
        body, _ = expr_for(ctx, k)
        out.append("def test_%d():\n    %s\n\n\n" % (k, body))
    return "".join(out)


def literal_forms(arg_text):
    """which string tokens of the written argument are triple-quoted"""
    forms = []
    try:
        for t in tokenize.generate_tokens(io.StringIO(arg_text + "\n").readline):
            if t.type == tokenize.STRING:
                body = t.string.lstrip("bBrRuU")
                forms.append(body.startswith('"""') or body.startswith("'''"))
    except (tokenize.TokenError, IndentationError, SyntaxError):
        return None
    return forms


def run_batch(args):
    """one module with several created snapshots; returns per case mismatches"""
    batch, seed, fmt = args
    from . import inline_driver
    rng = random.Random("%s|%s" % (batch[0]["h"], seed))
    values, ctxs, metas = [], [], []
    for c in batch:
        as_bytes = c.get("bytes", False)
        v = c["value"] if "value" in c else concretise(c["s"], rng, as_bytes)
        ctx = c.get("ctx") or rng.choice(CONTEXTS)
        if as_bytes and ctx in ("getitem",):
            ctx = "top"
        values.append(v)
        ctxs.append(ctx)
        metas.append(c)
    text = render(values, ctxs)
    kw = {}
    if fmt == "none":
        kw["no_black"] = True
    elif fmt == "cmd":
        kw["config"] = {"format_command": "cat"}
    try:
        obs = inline_driver.run_session({"test_case.py": text}, ["create"], **kw)
    except Exception as e:  # noqa
        return [{"error": repr(e)}]
    res = []
    if obs.get("finish_error") or obs.get("import_error"):
        err = obs.get("finish_error") or obs.get("import_error")
        return [{"h": c["h"], "mism": [{"clause": "finish", "props": ["C18", "C12"], "detail": err[:2], "value": repr(v), "ctx": x, "fmt": fmt}]}
                for c, v, x in zip(batch, values, ctxs)]
    new = obs["files"]["test_case.py"]
    try:
        args = inline_driver.snapshot_args(new)
    except SyntaxError as e:
        return [{"h": c["h"], "mism": [{"clause": "syntax", "props": ["C03", "C12"], "detail": str(e), "value": repr(v), "ctx": x, "fmt": fmt}]}
                for c, v, x in zip(batch, values, ctxs)]
    for k, (c, v, ctx) in enumerate(zip(batch, values, ctxs)):
        mism = []
        _, expected = expr_for(ctx, k)
        want = expected(v)
        if k >= len(args) or args[k][3] is None:
            mism.append({"clause": "not-created", "props": ["C01", "C12"], "detail": {}, "value": repr(v), "ctx": ctx, "fmt": fmt})
        else:
            try:
                got = ast.literal_eval(args[k][3])
                ok = got == want and type(got) is type(want) and repr(got) == repr(want)
            except Exception as e:  # noqa
                got, ok = "literal_eval: %r" % e, False
            if not ok:
                mism.append({"clause": "value", "props": ["C12", "C01"], "value": repr(v), "ctx": ctx, "fmt": fmt,
                             "detail": {"written": args[k][2], "reads_back": repr(got)}})
            elif "triple" in c and isinstance(v, str) and fmt != "cmd":
                forms = literal_forms(args[k][2])
                # every occurrence of the value in the argument is one string token
                multi = ("\n" in v and not v.endswith("\n")) or v.count("\n") > 1
                if forms is not None and forms and any(f != multi for f in forms if ctx != "dictval" or True):
                    # dict keys 'k' / 'a' are never multi-line: judge only tokens that can hold v
                    cand = [f for f in forms]
                    n_other = {"dictval": 1, "getitem": 1, "nested2": 1}.get(ctx, 0)
                    if sum(1 for f in cand if f) != (len(cand) - n_other if multi else 0):
                        mism.append({"clause": "form", "props": ["C12"], "value": repr(v), "ctx": ctx, "fmt": fmt,
                                     "detail": {"written": args[k][2], "multi_line_value": multi, "spec_triple": c["triple"]}})
                if c["triple"] != multi:
                    mism.append({"clause": "spec-form", "props": [], "value": repr(v), "ctx": ctx, "fmt": fmt, "detail": {}})
        res.append({"h": c["h"], "mism": mism, "value": repr(v), "ctx": ctx})
    return res
