"""Binding of spec/ISStrLit.tla to the implementation (C12): every abstract string (sequence of character
classes) emitted by TLC is concretised with seeded representatives per class, created as a snapshot through
the real tool in several contexts / formatter configurations, and read back with ast.literal_eval."""
from __future__ import annotations

import ast
import io
import json
import random
import tokenize
import zlib
from pathlib import Path

CLASSES = ["sp", "tab", "nl", "cr", "sq", "dq", "bs", "a", "u", "np", "x"]
REPS = {
    "sp": [" "], "tab": ["\t"], "nl": ["\n"], "cr": ["\r"], "sq": ["'"], "dq": ['"'], "bs": ["\\"],
    "a": ["a", "n", "x", "N", "u", "U", "0", "#", "{", "}", "%", "r", "t", "f", "b"],
    "u": ["é", "ß", "€", "中", "Ω", "ñ"],
    "np": ["\x00", "\x0c", "\x85", " ", "\x1b", "\ud800", "﻿", "\x7f", "​", "\x1c"],
    "x": ["😀", "𝔘", "🀄"],
}
BYTE_REPS = {
    "sp": [b" "], "tab": [b"\t"], "nl": [b"\n"], "cr": [b"\r"], "sq": [b"'"], "dq": [b'"'], "bs": [b"\\"],
    "a": [b"a", b"n", b"x", b"0", b"#"], "u": [b"\xc3", b"\xa9"], "np": [b"\x00", b"\x0c", b"\x7f"], "x": [b"\xf0", b"\xff"],
}
CONTEXTS = ["top", "list", "dictval", "dictkey", "tuple", "in", "getitem", "nested2"]


def load_cases(out_dir: Path, seed: int, keep_every: int = 1):
    cases = []
    for f in sorted(out_dir.glob("pre_*.json")):
        for c in json.loads(f.read_text())["cases"]:
            key = "%s|%s" % (c["s"], seed)
            h = zlib.crc32(key.encode())
            if keep_every > 1 and h % keep_every:
                continue
            cases.append({"s": c["s"], "triple": c["triple"], "h": h})
    cases.sort(key=lambda c: c["h"])
    return cases


def concretise(classes, rng, as_bytes=False):
    reps = BYTE_REPS if as_bytes else REPS
    parts = [rng.choice(reps[CLASSES[c]]) for c in classes]
    return (b"" if as_bytes else "").join(parts)


def expr_for(ctx, k, old=None):
    """(test body template, function building the expected value of the snapshot argument); old = the literal text
    of a value the snapshot already holds (the new value then arrives through `fix`), None = empty snapshot"""
    v = "V[%d]" % k
    o = old

    def arg(text):
        return text if o is not None else ""
    if ctx == "top":
        return "assert %s == snapshot(%s)" % (v, arg(o)), lambda s: s
    if ctx == "list":
        return "assert [%s, 1] == snapshot(%s)" % (v, arg("[%s, 1]" % o)), lambda s: [s, 1]
    if ctx == "dictval":
        return "assert {'k': %s} == snapshot(%s)" % (v, arg("{'k': %s}" % o)), lambda s: {"k": s}
    if ctx == "dictkey":
        return "assert {%s: 0} == snapshot(%s)" % (v, arg("{%s: 0}" % o)), lambda s: {s: 0}
    if ctx == "tuple":
        return "assert (%s,) == snapshot(%s)" % (v, arg("(%s,)" % o)), lambda s: (s,)
    if ctx == "in":
        if o is not None:
            return "assert %s in snapshot([%s])" % (v, o), lambda s: [OLD_VALUE(s), s]
        return "assert %s in snapshot()" % v, lambda s: [s]
    if ctx == "getitem":
        return "assert snapshot(%s)['k'] == %s" % (arg("{'k': %s}" % o), v), lambda s: {"k": s}
    if ctx == "nested2":
        return ("assert [[%s], {'a': (%s, 0)}] == snapshot(%s)" % (v, v, arg("[[%s], {'a': (%s, 0)}]" % (o, o))),
                lambda s: [[s], {"a": (s, 0)}])
    raise ValueError(ctx)


def OLD_VALUE(s):
    return b"#old#" if isinstance(s, bytes) else "#old#"


def render(values, ctxs, enc="utf-8", path="create"):
    out = ["from inline_snapshot import snapshot\n\nV = [\n"]
    if enc == "latin-1":
        out.insert(0, "# -*- coding: latin-1 -*-\n# caf\xe9\n")
    elif enc == "bom":
        out.insert(0, "\ufeff")
    for v in values:
        out.append("    %r,\n" % (v,))
    out.append("]\n\n\n")
    for k, ctx in enumerate(ctxs):
        body, _ = expr_for(ctx, k, None if path == "create" else repr(OLD_VALUE(values[k])))
        out.append("def test_%d():\n    %s\n\n\n" % (k, body))
    text = "".join(out)
    if enc == "latin-1":
        # exactly what is on disk (harness/srcio.py): other characters only occur inside plain string literals
        text = text.encode("latin-1", "backslashreplace").decode("latin-1")
    return text


def literal_forms(arg_text):
    """which string tokens of the written argument are triple-quoted"""
    forms = []
    try:
        for t in tokenize.generate_tokens(io.StringIO(arg_text + "\n").readline):
            if t.type == tokenize.STRING:
                body = t.string.lstrip("bBrRuU")
                forms.append(body.startswith('"""') or body.startswith("'''"))
    except (tokenize.TokenError, IndentationError, SyntaxError):
        return None
    return forms


def run_batch(args):
    """one module with several created snapshots; returns per case mismatches"""
    batch, seed, fmt = args
    from . import inline_driver
    rng = random.Random("%s|%s" % (batch[0]["h"], seed))
    values, ctxs, metas = [], [], []
    for c in batch:
        as_bytes = c.get("bytes", False)
        v = c["value"] if "value" in c else concretise(c["s"], rng, as_bytes)
        ctx = c.get("ctx") or rng.choice(CONTEXTS)
        if as_bytes and ctx in ("getitem",):
            ctx = "top"
        values.append(v)
        ctxs.append(ctx)
        metas.append(c)
    # the encoding of the test file: utf-8, declared latin-1 (PEP 263), utf-8 with a byte order mark
    enc = rng.choice(["utf-8", "utf-8", "utf-8", "utf-8", "latin-1", "latin-1", "bom"])
    enc = batch[0].get("enc") or enc
    # how the value gets into the snapshot: created in an empty one, or fixed into one that holds another value
    path = rng.choice(["create", "create", "fix"])
    path = batch[0].get("path") or path
    text = render(values, ctxs, enc, path)
    kw = {}
    if fmt == "none":
        kw["no_black"] = True
    elif fmt == "cmd":
        kw["config"] = {"format_command": "cat"}
    try:
        obs = inline_driver.run_session({"test_case.py": text}, ["create"] if path == "create" else ["fix"], **kw)
    except Exception as e:  # noqa
        return [{"error": repr(e)}]
    res = []
    if obs.get("finish_error") or obs.get("import_error"):
        err = obs.get("finish_error") or obs.get("import_error")
        return [{"h": c["h"], "mism": [{"clause": "finish", "props": ["C18", "C12"], "detail": err[:2], "value": repr(v), "ctx": x, "fmt": fmt, "enc": enc, "path": path}]}
                for c, v, x in zip(batch, values, ctxs)]
    new = obs["files"]["test_case.py"]
    if isinstance(new, dict):
        return [{"h": c["h"], "mism": [{"clause": "undecodable", "props": ["C12", "C03"], "detail": new["bytes"][:200], "value": repr(v), "ctx": x, "fmt": fmt, "enc": enc}]}
                for c, v, x in zip(batch, values, ctxs)]
    try:
        args = inline_driver.snapshot_args(new)
    except SyntaxError as e:
        return [{"h": c["h"], "mism": [{"clause": "syntax", "props": ["C03", "C12"], "detail": str(e), "value": repr(v), "ctx": x, "fmt": fmt}]}
                for c, v, x in zip(batch, values, ctxs)]
    for k, (c, v, ctx) in enumerate(zip(batch, values, ctxs)):
        mism = []
        _, expected = expr_for(ctx, k, None if path == "create" else repr(OLD_VALUE(v)))
        want = expected(v)
        if k >= len(args) or args[k][3] is None:
            mism.append({"clause": "not-created", "props": ["C01", "C12"], "detail": {}, "value": repr(v), "ctx": ctx, "fmt": fmt})
        else:
            try:
                got = ast.literal_eval(args[k][3])
                ok = got == want and type(got) is type(want) and repr(got) == repr(want)
            except Exception as e:  # noqa
                got, ok = "literal_eval: %r" % e, False
            if not ok:
                mism.append({"clause": "value", "props": ["C12", "C01"], "value": repr(v), "ctx": ctx, "fmt": fmt, "enc": enc,
                             "path": path, "detail": {"written": args[k][2], "reads_back": repr(got), "file_encoding": enc, "path": path}})
            elif "triple" in c and isinstance(v, str) and fmt != "cmd":
                forms = literal_forms(args[k][2])
                # every occurrence of the value in the argument is one string token
                multi = ("\n" in v and not v.endswith("\n")) or v.count("\n") > 1
                if forms is not None and forms and any(f != multi for f in forms if ctx != "dictval" or True):
                    # dict keys 'k' / 'a' are never multi-line: judge only tokens that can hold v
                    cand = [f for f in forms]
                    n_other = {"dictval": 1, "getitem": 1, "nested2": 1}.get(ctx, 0) + (1 if ctx == "in" and path == "fix" else 0)
                    if sum(1 for f in cand if f) != (len(cand) - n_other if multi else 0):
                        mism.append({"clause": "form", "props": ["C12"], "value": repr(v), "ctx": ctx, "fmt": fmt,
                                     "detail": {"written": args[k][2], "multi_line_value": multi, "spec_triple": c["triple"]}})
                if c["triple"] != multi:
                    mism.append({"clause": "spec-form", "props": [], "value": repr(v), "ctx": ctx, "fmt": fmt, "detail": {}})
        res.append({"h": c["h"], "mism": mism, "value": repr(v), "ctx": ctx})
    return res
