"""In-process driver of the real inline-snapshot code (the "inline" driver of DESIGN 4.1).

It performs the same steps as the public ``inline_snapshot.testing.Example.run_inline`` (enter a
fresh snapshot state, set the flags, execute the module, run every ``test_*`` function, collect
the changes, apply those whose category is approved, write the files) but keeps what the public
helper throws away: the per-test counters that the plugin's fixture turns into a test failure, the
exception of every test, and the categories per call site.  C19 compares this driver with the
public helpers and a real session so that it cannot drift from them.

One job = one session on one project directory.  Everything observable is returned as plain
JSON-able data; nothing here decides a property.
"""
from __future__ import annotations

import ast
import contextlib
import io
import os
import shutil
import sys
import tempfile
import traceback
import types
from pathlib import Path

from . import srcio

RECMOD = str(Path(__file__).resolve().parent / "recmod")
if RECMOD not in sys.path:
    sys.path.insert(0, RECMOD)

_repo = os.environ.get("VERIF_REPO")
if _repo:
    sys.path.insert(0, str(Path(_repo) / "src"))


def _silence():
    return contextlib.redirect_stdout(io.StringIO())


def _err_text(e):
    """str(e), but for the overlap assertion of SourceFile._check the two ranges come first (the texts may be long)"""
    a = e.args[0] if isinstance(e, AssertionError) and e.args else None
    if isinstance(a, tuple) and len(a) == 2 and all(hasattr(r, "range") for r in a):
        rng = " ".join("lineno=%d, col_offset=%d" % (p.lineno, p.col_offset)
                       for r in a for p in (r.range.start, r.range.end))
        return ("Replacement( overlap %s | %s" % (rng, str(e)))[:400]
    return str(e)[:300]


def run_session(files: dict, flags, *, keep_dir: str | None = None, config: dict | None = None,
                per_test_reset: bool = True, apply_flags=None, no_black: bool = False) -> dict:
    """Run one in-process session.

    files  : {relative name: text}; ``*.py`` files in the top directory are executed in sorted order
    flags  : categories given as flags (they influence comparisons and are applied)
    apply_flags : categories that are applied (default = flags); `flags` then only influences
                  comparisons (this is what review mode does in the plugin: all four influence the
                  comparisons, the answered ones are applied)
    """
    import verif_rec
    from inline_snapshot import _config
    from inline_snapshot._change import apply_all
    from inline_snapshot._external import DiscStorage
    from inline_snapshot._flags import Flags
    from inline_snapshot._global_state import snapshot_env
    from inline_snapshot._rewrite_code import ChangeRecorder
    from inline_snapshot import _problems

    flags = set(flags)
    apply_set = set(flags if apply_flags is None else apply_flags)
    obs: dict = {"tests": [], "import_error": None, "finish_error": None, "sites": {}, "problems": 0}
    tmp = Path(keep_dir or tempfile.mkdtemp(prefix="verif_inl_"))
    old_cfg = _config.config
    loaded: list = []
    saved_black = None
    if no_black:
        # "black is not installed": the import inside inline_snapshot._format fails
        saved_black = {k: v for k, v in sys.modules.items() if k == "black" or k.startswith("black.")}
        for k in saved_black:
            del sys.modules[k]
        sys.modules["black"] = None
    try:
        for name, content in files.items():
            p = tmp / name
            p.parent.mkdir(parents=True, exist_ok=True)
            srcio.write_source(p, content)
        cfg = _config.Config()
        for k, v in (config or {}).items():
            setattr(cfg, k, v)
        _config.config = cfg
        _problems.all_problems.clear()
        verif_rec.reset()
        from inline_snapshot import _compare_context
        _compare_context._eq_check_only = False      # a real session starts in a fresh process
        with snapshot_env() as state:
            recorder = ChangeRecorder()
            state.update_flags = Flags(flags)
            state.storage = DiscStorage(tmp / ".storage")
            try:
                for filename in sorted(tmp.glob("*.py")):
                    # a real module object (as pytest's import would create), registered while it is used:
                    # dataclasses / pydantic / inspect.getmodule look the module up in sys.modules
                    mod = types.ModuleType(filename.stem)
                    mod.__file__ = str(filename)
                    g = mod.__dict__
                    sys.modules[filename.stem] = mod
                    loaded.append(filename.stem)
                    try:
                        with _silence():
                            exec(compile(filename.read_bytes(), str(filename), "exec"), g)
                    except BaseException as e:  # noqa
                        obs["import_error"] = [type(e).__name__, str(e)[:300]]
                        continue
                    tests = [(k, v) for k, v in g.items()
                             if (k.startswith("test_") or k == "test") and callable(v)]
                    for name, fn in tests:
                        if per_test_reset:
                            state.missing_values = 0
                            state.incorrect_values = 0
                        exc = None
                        try:
                            with _silence():
                                fn()
                        except BaseException as e:  # noqa
                            exc = [type(e).__name__, str(e)[:200]]
                        obs["tests"].append({"file": filename.name, "name": name, "exc": exc,
                                             "missing": state.missing_values,
                                             "incorrect": state.incorrect_values})
            finally:
                state.active = False
            try:
                changes = []
                for snap in state.snapshots.values():
                    cs = list(snap._changes())
                    changes += cs
                    node = getattr(getattr(snap, "_expr", None), "node", None)
                    fn = getattr(getattr(snap._value, "_file", None), "filename", None)
                    key = "%s:%s:%s" % (os.path.basename(fn) if fn else "?",
                                        getattr(node, "lineno", 0), getattr(node, "col_offset", 0))
                    obs["sites"].setdefault(key, [])
                    obs["sites"][key] = sorted(set(obs["sites"][key]) | {c.flag for c in cs})
                obs["categories"] = sorted({c.flag for c in changes})
                with _silence():
                    apply_all([c for c in changes if c.flag in apply_set], recorder)
                    recorder.fix_all()
            except BaseException as e:  # noqa
                obs["finish_error"] = [type(e).__name__, _err_text(e),
                                       traceback.format_exc()[-1500:]]
        obs["problems"] = len(_problems.all_problems)
        obs["problem_texts"] = [str(p)[:200] for p in _problems.all_problems]
        _problems.all_problems.clear()
        log, extra = verif_rec.snapshot_log()
        obs["log"], obs["extra"] = log, extra
        out = {}
        for p in sorted(tmp.rglob("*")):
            if p.is_file() and "__pycache__" not in p.parts:
                rel = str(p.relative_to(tmp))
                try:
                    out[rel] = srcio.read_source(p) if p.suffix == ".py" else p.read_bytes().decode("utf-8")
                except (UnicodeDecodeError, SyntaxError):
                    out[rel] = {"bytes": p.read_bytes().hex()}
        obs["files"] = out
        return obs
    finally:
        _config.config = old_cfg
        if saved_black is not None:
            sys.modules.pop("black", None)
            sys.modules.update(saved_black)
        for name in loaded:
            sys.modules.pop(name, None)
        if keep_dir is None:
            shutil.rmtree(tmp, ignore_errors=True)


def snapshot_args(source: str, fname: str = "snapshot"):
    """(lineno, col, source text of the argument or None, ast node or None) of every ``snapshot(...)``
    call in textual order - the harness' own, independent way of finding the arguments."""
    if source.startswith("\ufeff"):
        source = source[1:]             # a byte order mark is not part of the program text
    tree = ast.parse(source)
    calls = [n for n in ast.walk(tree)
             if isinstance(n, ast.Call) and isinstance(n.func, ast.Name) and n.func.id == fname]
    calls.sort(key=lambda n: (n.lineno, n.col_offset))
    res = []
    for c in calls:
        if c.args:
            a = c.args[0]
            res.append((c.lineno, c.col_offset, ast.get_source_segment(source, a), a))
        else:
            res.append((c.lineno, c.col_offset, None, None))
    return res
