"""Reading and writing generated test files the way Python itself reads them: the encoding is the one declared by
a PEP 263 cookie / BOM of the text (default UTF-8).  Characters that the declared encoding cannot represent are written
as backslash escapes - the generated modules only hold them inside plain string literals, where the escape means the
same character."""
from __future__ import annotations

import re
from pathlib import Path

COOKIE = re.compile(r"^[ \t\f]*#.*?coding[:=][ \t]*([-\w.]+)")


def declared_encoding(text: str) -> str:
    for line in text.split("\n")[:2]:
        m = COOKIE.match(line)
        if m:
            return m.group(1)
    return "utf-8"


def write_source(path: Path, text: str):
    enc = declared_encoding(text)
    Path(path).write_bytes(text.encode(enc, "backslashreplace"))


def read_source(path: Path) -> str:
    """the text of the file as the Python tokenizer decodes it (a BOM is kept as U+FEFF, as before)"""
    data = Path(path).read_bytes()
    # (tokenize.detect_encoding only knows \n as a line end; the generated files also use \r and \r\n)
    head = re.split(r"\r\n|\r|\n", data[:400].decode("latin-1"))[:2]
    enc = declared_encoding("\n".join(head))
    return data.decode(enc)
