"""Spec -> code for spec/ISSeqEdit.tla: every (container source, edit) case of MC_SeqEdit is concretised as a real
file (seeded element texts, layouts, comments), the edit is handed to the real `apply_all` as Delete / ListInsert /
DictInsert / CallArg changes on the nodes of the real syntax tree, and the rewritten file is parsed again: the
container must have exactly the elements the specification expects (kept ones verbatim), a tuple must stay a tuple,
nothing outside the container may change."""
from __future__ import annotations

import ast
import json
import random
import shutil
import tempfile
import zlib
from pathlib import Path

OLD_POOL = ["101", "'b2'", "[3, 33]", "f(4)", "-5", "{'k': 6}", "x . y", "7 + 70", "not z", "lambda: 8", "*r9"]
PAREN_POOL = ["(1 if c else 11)", "(12)", "(\n        13\n    )", "( 'p' 'q' )", "((14))"]
NEW_POOL = ["901", "'n2'", "[903]", "g(904)", "-905", "None"]
KEYS = ["'a'", "'b'", "'c'", "1", "(2, 3)", "'d'", "'e'", "'f'", "'g'"]
NAMES = ["a", "b", "c", "d", "e", "f", "g", "h", "i"]


def load_cases(out_dir: Path, seed: int):
    cases = []
    for f in sorted(out_dir.glob("case_*.json")):
        c = json.loads(f.read_text())
        c["h"] = zlib.crc32(("%s|%s" % (c["id"], seed)).encode())
        cases.append(c)
    cases.sort(key=lambda c: c["h"])
    return cases


class Gamma:
    """seeded concretisation: texts of the old / new elements, layout of the display"""

    def __init__(self, rng: random.Random, case):
        self.kind = case["kind"]
        n = case["n"]
        pool = [t for t in OLD_POOL if not (t.startswith("*") and self.kind in ("dict", "call"))]
        if self.kind == "call" or rng.random() < 0.7:
            pool = [t for t in pool if not t.startswith("*")]
        self.old = [rng.choice(PAREN_POOL) if (i + 1) in case["parens"] else rng.choice(pool) for i in range(n)]
        nnew = max([j for x in case["ins"] for j in x] + [0])     # (script producer: ids = positions in the new value)
        self.new = [rng.choice(NEW_POOL) for _ in range(nnew)]
        self.keys = rng.sample(KEYS, len(KEYS))
        self.names = rng.sample(NAMES, len(NAMES))
        self.layout = rng.choice(["line", "line", "tight", "multi", "multi-comment", "hang"])
        self.func = rng.choice(["f", "pkg.Cls", "f(0)"])

    def old_elem(self, i):          # 0-based
        t = self.old[i]
        if self.kind == "dict":
            return "%s: %s" % (self.keys[i], t)
        if self.kind == "call":
            return "%s=%s" % (self.names[i], t)
        return t

    def new_elem(self, j):          # id 1-based; (code for the change, text expected in the result)
        t = self.new[j - 1]
        if self.kind == "dict":
            k = self.keys[-j]
            return (k, t), "%s: %s" % (k, t)
        if self.kind == "call":
            nm = self.names[-j]
            return (nm, t), "%s=%s" % (nm, t)
        return t, t

    def display(self, case):
        o, c = {"list": "[]", "tuple": "()", "dict": "{}", "call": "()"}[self.kind]
        elems = [self.old_elem(i) for i in range(case["n"])]
        head = self.func if self.kind == "call" else ""
        tc = "," if case["trailing"] and elems else ""
        if not elems:
            return head + o + (" " if self.layout == "tight" else "") + c
        if self.layout == "line":
            return head + o + ", ".join(elems) + tc + c
        if self.layout == "tight":
            return head + o + " " + " ,".join(elems) + (" ," if tc else "") + " " + c
        if self.layout == "multi":
            return head + o + "\n" + "".join("        %s,\n" % e for e in elems[:-1]) + "        %s%s\n    " % (elems[-1], tc) + c
        if self.layout == "multi-comment":
            return head + o + "  # open\n" + "".join("        %s,  # c%d\n" % (e, i) for i, e in enumerate(elems[:-1])) \
                + "        %s%s  # last\n    " % (elems[-1], tc) + c
        return head + o + elems[0] + ("," if len(elems) > 1 or tc else "") + "\n" \
            + "".join("         %s%s\n" % (e, "," if (i < len(elems) - 2 or tc) else "") for i, e in enumerate(elems[1:])) + "    " + c


PRE = "import os\nx=1   # not formatter-clean on purpose\n\n\ndef test_a(c, r9, f, g, pkg, x, z):\n    before = 0  # comment\n    value = "
POST = "  # after\n    after = [1,\n 2]\n    return value\n"


def elements_of(node, kind):
    if kind in ("list", "tuple"):
        return list(node.elts)
    if kind == "dict":
        return list(zip(node.keys, node.values))
    return list(node.keywords)


def dump_elem(e, kind):
    if kind == "dict":
        return ast.dump(e[0]) + ":" + ast.dump(e[1])
    if kind == "call":
        return e.arg + "=" + ast.dump(e.value)
    return ast.dump(e)


def parse_elem(text, kind):
    if kind == "dict":
        d = ast.parse("{%s}" % text, mode="eval").body
        return ast.dump(d.keys[0]) + ":" + ast.dump(d.values[0])
    if kind == "call":
        c = ast.parse("f(%s)" % text, mode="eval").body
        return c.keywords[0].arg + "=" + ast.dump(c.keywords[0].value)
    e = ast.parse("[%s]" % text, mode="eval").body.elts[0]
    return ast.dump(e)


def find_value(tree):
    for n in ast.walk(tree):
        if isinstance(n, ast.Assign) and isinstance(n.targets[0], ast.Name) and n.targets[0].id == "value":
            return n.value
    return None


def replay_one(case, seed):
    from executing import Source
    from inline_snapshot._change import CallArg, Delete, DictInsert, ListInsert, apply_all
    from inline_snapshot._rewrite_code import ChangeRecorder
    rng = random.Random("%s|%s" % (case["id"], seed))
    g = Gamma(rng, case)
    kind = case["kind"]
    disp = g.display(case)
    text = PRE + disp + POST
    mism = []

    def mm(clause, props, detail):
        mism.append({"clause": clause, "props": props, "detail": detail})
    info = {"layout": g.layout, "display": disp}
    d = Path(tempfile.mkdtemp(prefix="verif_se_"))
    try:
        f = d / "test_a.py"
        f.write_text(text)
        try:
            ast.parse(text)
        except SyntaxError as e:            # the harness produced nonsense
            raise RuntimeError("concretisation is no valid Python: %s\n%s" % (e, text))
        source = Source.for_filename(str(f))
        node = find_value(source.tree)
        olds = elements_of(node, kind)
        assert len(olds) == case["n"], (len(olds), case["n"], text)
        changes = []
        flag = "fix"
        for i in case["del"]:
            e = olds[i - 1]
            target = e[1] if kind == "dict" else (e.value if kind == "call" else e)
            changes.append(Delete(flag, source, target, None))
        expected_new = {}
        for p, ids in enumerate(case["ins"]):
            if not ids:
                continue
            codes = []
            for j in ids:
                code, shown = g.new_elem(j)
                codes.append(code)
                expected_new["new%d" % j] = shown
            if kind in ("list", "tuple"):
                changes.append(ListInsert(flag, source, node, p, list(codes), [None] * len(codes)))
            elif kind == "dict":
                changes.append(DictInsert(flag, source, node, p, list(codes), [(None, None)] * len(codes)))
            else:
                for nm, code in codes:
                    changes.append(CallArg(flag, source, node, p, nm, code, None))
        if kind != "call":                   # apply_all must not depend on the order of the change list
            rng.shuffle(changes)             # (several CallArg changes of one position keep the order of the list)
        recorder = ChangeRecorder()
        try:
            apply_all(changes, recorder)
            files = list(recorder.files())
            new_text = files[0].new_code() if files else text
        except BaseException as e:  # noqa
            import traceback
            mm("exception", ["C18"], [type(e).__name__, str(e)[:300], traceback.format_exc()[-800:]])
            return mism, info, text, None
        info["after"] = new_text
        # --- still valid Python
        try:
            tree = ast.parse(new_text)
        except SyntaxError as e:
            mm("syntax", ["C03", "C18"], str(e))
            return mism, info, text, new_text
        # --- nothing outside the display
        if not (new_text.startswith(PRE) and new_text.endswith(POST)):
            mm("outside", ["C03"], "text in front of / behind the display changed")
            return mism, info, text, new_text
        new_node = find_value(tree)
        want_type = {"list": ast.List, "tuple": ast.Tuple, "dict": ast.Dict, "call": ast.Call}[kind]
        if not isinstance(new_node, want_type):
            mm("kind", ["C02", "C03"], {"expected": kind, "got": type(new_node).__name__,
                                        "text": new_text[len(PRE):len(new_text) - len(POST)]})
            return mism, info, text, new_text
        # --- the elements
        got = [dump_elem(e, kind) for e in elements_of(new_node, kind)]
        want = []
        for toks in case["expected"]:
            name = [t for t in toks if t.startswith(("old", "new"))][0]
            if name.startswith("old"):
                want.append(parse_elem(g.old_elem(int(name[3:]) - 1), kind))
            else:
                want.append(parse_elem(expected_new[name], kind))
        if got != want:
            mm("elements", ["C02", "C03"], {"text": new_text[len(PRE):len(new_text) - len(POST)], "expected": case["expected"]})
        # --- kept elements verbatim (with their parentheses and inner layout)
        body = new_text[len(PRE):len(new_text) - len(POST)]
        for toks in case["expected"]:
            name = [t for t in toks if t.startswith("old")]
            if name:
                t = g.old_elem(int(name[0][3:]) - 1)
                if t not in body:
                    mm("verbatim", ["C03", "C11"], {"element": t, "text": body})
        return mism, info, text, new_text
    finally:
        shutil.rmtree(d, ignore_errors=True)


def _worker(args):
    cases, seed = args
    out = []
    for case in cases:
        try:
            mism, info, text, new = replay_one(case, seed)
            out.append({"id": case["id"], "mism": mism, "info": info, "text": text if mism else None, "new": new if mism else None})
        except Exception:  # noqa
            import traceback
            out.append({"id": case["id"], "error": traceback.format_exc()[-2000:]})
    return out


RUNS = [("any", '{"list", "dict", "call"}'), ("free", '{"tuple"}'), ("script", '{"list", "tuple"}')]


def run(chk, max_n=3, max_ins=2, stride=1):
    from . import pool, tlc
    from .checklib import MachineryError
    # the domain of the function: an insertion in front of deleted trailing elements of a tuple is outside
    neg = tlc.run_tlc("MC_SeqEdit", "SeqEdit.cfg", workers=8, timeout=900,
                      extra_files={"run.cfg": _cfg("any", '{"tuple"}', "mc", max_n, max_ins, 1, 0)})
    chk.add_tlc(neg, "mc SeqEdit producer=any kinds=tuple (outside the producers: expected to fail: %s)" % neg.violated)
    tlc.cleanup(neg)
    if neg.ok:
        raise MachineryError("ISSeqEdit: every edit of a tuple is handled - the limit documented in MC_SeqEdit is gone")
    cases = []
    for producer, kinds in RUNS:
        res = tlc.run_tlc("MC_SeqEdit", "SeqEdit.cfg", workers=16, timeout=1500,
                          extra_files={"run.cfg": _cfg(producer, kinds, "emit", max_n, max_ins, stride, chk.seed % stride)})
        chk.add_tlc(res, "mc+emit SeqEdit producer=%s kinds=%s" % (producer, kinds))
        try:
            if not res.ok:
                chk.spec_violation(res, "mc SeqEdit " + producer)
                continue
            for c in load_cases(res.out_dir, chk.seed):
                c["id"] = "%s/%s" % (producer, c["id"])
                cases.append(c)
        finally:
            tlc.cleanup(res)
    if not cases:
        raise MachineryError("no cases emitted by MC_SeqEdit")
    by_id = {c["id"]: c for c in cases}
    results = pool.parallel_map(_worker, [(c, chk.seed) for c in pool.chunks(cases, 100)])
    errors = 0
    for chunk in results:
        for r in chunk:
            case = by_id[r["id"]]
            if "error" in r:
                errors += 1
                if errors <= 3:
                    print("driver error on seqedit case %s:\n%s" % (r["id"], r["error"]))
                continue
            nontrivial = bool(case["del"]) or any(case["ins"])
            chk.count(1, "seqedit%s" % r["id"] if nontrivial else None)
            chk.validated(1)
            if nontrivial and case["h"] % 997 == 0:
                chk.sample({"kind": "spec->code replay (ISSeqEdit)", "case": {k: case[k] for k in ("kind", "n", "parens", "trailing", "del", "ins", "expected")},
                            "display": r["info"]["display"], "after": r["info"].get("after", "")[len(PRE):][:200]}, limit=8)
            for m in r["mism"]:
                chk.mismatch(m["clause"], {"clause": m["clause"], "model": "seqedit", "kind": case["kind"], "layout": r["info"]["layout"]},
                             {"kind": "seqedit-case", "case": case, "seed": chk.seed, "mismatch": m, "module": r["text"],
                              "module_after": r["new"]}, props=m["props"])
    if errors:
        raise MachineryError("%d seqedit replay jobs crashed in the harness" % errors)


def _cfg(producer, kinds, mode, max_n, max_ins, stride, offset):
    from . import tlc
    text = (tlc.SPEC_DIR / "SeqEdit.cfg").read_text()
    out = []
    for line in text.splitlines():
        s = line.strip()
        if s.startswith("Producer ="):
            line = '  Producer = "%s"' % producer
        elif s.startswith("KindSet ="):
            line = "  KindSet = %s" % kinds
        elif s.startswith("Mode ="):
            line = '  Mode = "%s"' % mode
        elif s.startswith("MaxN ="):
            line = "  MaxN = %d" % max_n
        elif s.startswith("MaxIns ="):
            line = "  MaxIns = %d" % max_ins
        elif s.startswith("Stride ="):
            line = "  Stride = %d" % stride
        elif s.startswith("Offset ="):
            line = "  Offset = %d" % offset
        out.append(line)
    return "\n".join(out) + "\n"
