"""Fault enumeration for C15: a multi-file change set is applied by a real session of the plugin while ONE
fault is injected at a chosen call boundary (audit events, wrapped open, wrapped formatter invocations - see
recmod/verif_faults.py).  For a scenario the fault-free run gives the list of boundary events; every
(event, applicable fault kind) is then run on a fresh copy of the project.  After each run the files are
classified, the next session start is executed, and the whole execution is handed to TLC as a trace of
spec/TraceRewrite.tla."""
from __future__ import annotations

import ast
import json
import os
import re
import shutil
import tempfile
from pathlib import Path

FILES = ["fa", "fb", "fc"]
NAMES = {"fa": "test_a.py", "fb": "test_b.py", "fc": "test_c.py"}
HAS_EXT = ["fa", "fc"]

SRC = {
    "fa": 'from inline_snapshot import snapshot, outsource\n\n\ndef test_a():\n    assert outsource("payload A\\n" * 3) == snapshot()\n',
    "fb": 'from inline_snapshot import snapshot\n\n\ndef test_b():\n    assert [1, 2, 3] == snapshot([1, 5])\n    assert "x" == snapshot()\n',
    "fc": 'from inline_snapshot import snapshot, outsource\n\n\ndef test_c():\n    assert outsource(b"payload C", suffix=".png") == snapshot()\n    assert {"k": 1} == snapshot({"k": 2})\n',
}
UNCLEAN = {k: v.replace("assert ", "assert  ", 1) for k, v in SRC.items()}     # not formatter-clean
# scenario option "enc": the middle file declares latin-1 (PEP 263), holds latin-1 text, and its new value has a
# character that latin-1 cannot represent - writing it needs no injected fault to go wrong
ENC_FB = ('# -*- coding: latin-1 -*-\nfrom inline_snapshot import snapshot\n\n# caf\xe9\n\ndef test_b():\n'
          '    assert  [1, 2, 3] == snapshot([1, 5])\n    assert "x" + chr(8364) == snapshot()\n')


def read(path) -> str:
    from . import srcio
    try:
        return srcio.read_source(path)
    except (UnicodeDecodeError, LookupError):
        return Path(path).read_bytes().decode("latin-1")


def make_project(mode: str, clean: bool, trim: bool, enc: bool = False) -> Path:
    from . import srcio
    d = Path(tempfile.mkdtemp(prefix="verif_flt_"))
    for f in FILES:
        srcio.write_source(d / NAMES[f], ENC_FB if (enc and f == "fb") else (SRC if clean else UNCLEAN)[f])
    pp = ["[tool.inline-snapshot]"]
    if mode == "cmd":
        pp.append('format-command = "cat"')
    (d / "pyproject.toml").write_text("\n".join(pp) + "\n")
    if trim:
        ext = d / ".inline-snapshot" / "external"
        ext.mkdir(parents=True)
        import hashlib
        data = b"unused external"
        (ext / (hashlib.sha256(data).hexdigest() + ".bin")).write_bytes(data)
    return d


def session(proj: Path, flags: str, plan=None, log=None):
    from . import session_driver as sd
    env = {}
    if log:
        env["VERIF_FAULT_LOG"] = str(log)
    if plan:
        env["VERIF_FAULT_PLAN"] = json.dumps(plan)
    return sd.run_fork(proj, ["-p", "verif_faults", "--inline-snapshot=" + flags], env=env, timeout=90)


def read_log(path):
    evs = []
    if os.path.exists(path):
        for line in open(path):
            try:
                evs.append(json.loads(line))
            except ValueError:
                pass
    return evs


def classify(text_now: str, old: str, new_ast: str):
    if text_now == old:
        return "old"
    try:
        if ast.dump(ast.parse(text_now)) == new_ast:
            return "complete"
    except SyntaxError:
        pass
    if text_now == "":
        return "trunc"
    return "garbage" if "not python" in text_now or "\\xff" in text_now else "other"


def externals_state(proj: Path):
    """{file: kept|new|none} for the external that the new content of fa / fc references"""
    import hashlib
    want = {"fa": (hashlib.sha256(("payload A\n" * 3).encode()).hexdigest(), ".txt"),
            "fc": (hashlib.sha256(b"payload C").hexdigest(), ".png"), "fb": None}
    ext = proj / ".inline-snapshot" / "external"
    out = {}
    for f, w in want.items():
        if w is None:
            out[f] = "none"
        elif (ext / (w[0] + w[1])).exists():
            out[f] = "kept"
        elif (ext / (w[0] + "-new" + w[1])).exists():
            out[f] = "new"
        else:
            out[f] = "gone"
    return out


def referenced_externals(text):
    return re.findall(r'external\("([0-9a-f]+)\*?(\.[A-Za-z0-9]+)"\)', text)


def abstract_events(evs, mode):
    """events of the log in the vocabulary of TraceRewrite"""
    inv = {v: k for k, v in NAMES.items()}
    out = []
    for e in evs:
        if e["n"] <= 0:
            continue
        fault = e.get("fault", "none")
        if fault in ("fmt-exit1",) or (fault in ("fmt-raise", "exception") and e["ev"] == "fmt" and e["what"][:1] == ["black"]):
            fault = "fmt-error"        # inline-snapshot catches everything that black raises
        elif fault in ("fmt-raise", "fmt-nonutf8"):
            fault = "exception"
        elif fault == "fmt-empty":
            fault = "fmt-garbage"      # the formatter printed something that is not the program
        ev = {"ev": e["ev"], "file": "", "fault": fault}
        if e["ev"] in ("open-r", "open-w"):
            ev["file"] = inv.get(e["what"][0], "")
            if not ev["file"]:
                continue
        out.append(ev)
    return out


def run_plan(args):
    """one faulted run of a scenario; returns the trace for TLC plus the property-level verdicts"""
    scen, plan, baseline_new = args
    mode, clean, trim = scen["mode"], scen["clean"], scen["trim"]
    proj = make_project(mode, clean, trim, scen.get("enc", False))
    log = tempfile.mktemp(prefix="verif_fltlog_")
    try:
        old = {f: read(proj / NAMES[f]) for f in FILES}
        r = session(proj, scen["flags"], plan, log)
        evs = read_log(log)
        popped = next((e.get("popped") for e in evs if e["ev"] == "unconfigure"), None)
        now = {f: read(proj / NAMES[f]) for f in FILES}
        cls = {f: classify(now[f], old[f], baseline_new[f]) for f in FILES}
        store_before = externals_state(proj)
        # the next session start prunes the unreferenced externals
        from . import session_driver as sd
        # (no test is run, so that nothing is outsourced again: the listing is the state after the pruning)
        r2 = sd.run_fork(proj, ["--collect-only", "-q"], timeout=90)
        store_after = externals_state(proj)
        verdicts = []
        for f in FILES:
            if cls[f] not in ("old", "complete"):
                verdicts.append({"clause": "atomic", "file": f, "class": cls[f], "first_lines": now[f][:120]})
            elif cls[f] == "complete":
                try:
                    ast.parse(now[f])
                except SyntaxError:
                    verdicts.append({"clause": "atomic", "file": f, "class": "unparsable"})
        ext_dir = proj / ".inline-snapshot" / "external"
        stored = [p.name for p in ext_dir.iterdir()] if ext_dir.exists() else []
        for f in FILES:
            new_refs = [x for x in referenced_externals(now[f]) if x not in referenced_externals(old[f])]
            for h, sfx in new_refs:
                if not any(n.startswith(h) and n.endswith(sfx) and "-new" not in n for n in stored):
                    verdicts.append({"clause": "dangling", "file": f, "ref": h + sfx, "stored": stored})
        kind = (plan or {}).get("kind", "none")
        if kind in ("fmt-exit1",) or (kind == "fmt-raise" and mode == "black"):
            # a formatter error alone degrades: the session goes on and writes complete code, a problem is reported
            if r["rc"] not in (0, 1) or any(cls[f] != "complete" for f in FILES):
                verdicts.append({"clause": "degrade", "rc": r["rc"], "classes": cls})
            elif "Problems" not in r["stdout"] and "problem" not in r["stdout"].lower():
                verdicts.append({"clause": "degrade-report", "stdout": r["stdout"][-600:]})
        if popped is False and "crash" not in kind:
            verdicts.append({"clause": "pop"})
        trace = {"events": abstract_events(evs, mode),
                 "final": {"disk": cls, "store": store_after,
                           "popped": "unknown" if popped is None else ("yes" if popped else "no")},
                 "plan": plan, "rc": r["rc"]}
        return {"plan": plan, "scen": scen, "trace": trace, "verdicts": verdicts, "rc": r["rc"],
                "stdout": r["stdout"][-1200:] if verdicts else "", "store_before": store_before}
    finally:
        shutil.rmtree(proj, ignore_errors=True)
        if os.path.exists(log):
            os.unlink(log)


def baseline(scen):
    proj = make_project(scen["mode"], scen["clean"], scen["trim"], scen.get("enc", False))
    log = tempfile.mktemp(prefix="verif_fltlog_")
    try:
        old = {f: read(proj / NAMES[f]) for f in FILES}
        r = session(proj, scen["flags"], None, log)
        evs = [e for e in read_log(log) if e["n"] > 0]
        new = {}
        problems = []
        for f in FILES:
            t = read(proj / NAMES[f])
            # the fault-free run is the oracle for "complete new content": it must itself be complete - every
            # snapshot() filled, the file parses and is not shorter than before
            try:
                tree = ast.parse(t)
                empty = [n for n in ast.walk(tree) if isinstance(n, ast.Call) and getattr(n.func, "id", "") == "snapshot" and not n.args]
                fixed = "snapshot([1, 5])" not in t and '{"k": 2}' not in t
                ok = t != old[f] and not empty and fixed and len(t) >= len(old[f]) - 2
            except SyntaxError:
                ok = False
            if not ok:
                problems.append({"clause": "atomic", "file": f, "class": "trunc" if t == "" else "incomplete-without-fault",
                                 "first_lines": t[:200], "stdout": r["stdout"][-1500:]})
                new[f] = "<no complete content observed>"
            else:
                new[f] = ast.dump(tree)
        return evs, new, problems
    finally:
        shutil.rmtree(proj, ignore_errors=True)
        if os.path.exists(log):
            os.unlink(log)


def plans_for(evs, mode, thorough):
    plans = []
    for e in evs:
        kinds = ["exception", "crash"]
        if e["ev"] == "open-w":
            kinds += ["write-exception", "write-crash"]
        if e["ev"] == "fmt":
            kinds += ["fmt-exit1", "fmt-garbage", "fmt-empty", "fmt-raise"] + (["fmt-nonutf8"] if mode == "cmd" else [])
        if e["ev"] == "open-r" and not thorough and e["n"] % 3:
            continue        # quick: every third read boundary
        for k in kinds:
            plans.append({"index": e["n"], "kind": k})
    return plans
