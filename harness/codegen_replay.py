"""C01 / C16: cases of spec/ISCodeGen.tla (leaf type x container x operation x placement) are concretised with
seeded values per type tag, created through a real session of the plugin, and the rewritten module is run again
with inline-snapshot disabled: every test must pass (the created code reads back as the observed value)."""
from __future__ import annotations

import json
import random
import shutil
import tempfile
import zlib
from pathlib import Path

HEADER = '''"""generated module: a docstring and a __future__ import come first - added imports go behind them"""
from __future__ import division

from inline_snapshot import snapshot, outsource, customize_repr
import collections
from collections import OrderedDict, defaultdict      # generated names must resolve in the module's namespace
import dataclasses
import enum
import typing

import attrs
import pydantic


class Color(enum.Enum):
    RED = 1
    GREEN = "g"


class Perm(enum.Flag):
    R = 4
    W = 2
    X = 1


@dataclasses.dataclass(unsafe_hash=True)
class DC:
    a: object
    b: object = 5
    c: typing.Any = dataclasses.field(default_factory=list)


@dataclasses.dataclass
class DCNR:
    a: object
    hidden: object = dataclasses.field(default=0, repr=False)


@attrs.define
class AT:
    a: object
    b: object = 1


class PD(pydantic.BaseModel):
    a: typing.Any
    b: typing.Any = 2


class NT(typing.NamedTuple):
    a: object
    b: object = 3


class Weird:
    def __init__(self, n):
        self.n = n

    def __repr__(self):
        return "<Weird %d>" % self.n

    def __eq__(self, other):
        if not isinstance(other, Weird):
            return NotImplemented
        return self.n == other.n


class Pixel:
    # the repr is no Python code and embeds the repr of a child whose code representation is customised
    def __init__(self, color, n=0):
        self.color, self.n = color, n

    def __repr__(self):
        return "<Pixel color=" + repr(self.color) + " n=" + repr(self.n) + ">"

    def __eq__(self, other):
        if not isinstance(other, Pixel):
            return NotImplemented
        return (self.color, self.n) == (other.color, other.n)


class Money:
    def __init__(self, amount, unit):
        self.amount, self.unit = amount, unit

    def __eq__(self, other):
        if not isinstance(other, Money):
            return NotImplemented
        return (self.amount, self.unit) == (other.amount, other.unit)


@customize_repr
def _(value: Money):
    return "Money(" + repr(value.amount) + ", " + repr(value.unit) + ")"


def _never_called():
    # imports of the names that generated code may need, in places where they do not bind a module-level name
    from inline_snapshot import HasRepr, external
    return HasRepr, external


if typing.TYPE_CHECKING:
    from inline_snapshot import HasRepr, external


def check(value, snap):
    assert value == snap


'''

VALUES = {
    "int": ["0", "7", "255"], "negint": ["-1", "-42"], "bigint": ["2**70", "-(10**30)"], "bool": ["True", "False"],
    "none": ["None"], "float": ["1.5", "0.1", "1e100", "1e-07", "3.0", "5e-324"], "negfloat": ["-0.0", "-2.5"],
    "inf": ["float('inf')", "-float('inf')"], "nan": ["float('nan')"],
    # (complex values whose real part is a negative zero are left out: CPython's repr of them, "(-0-3.5j)", does not
    #  evaluate back to the same representation - an environment quirk, not the tool's)
    "complex": ["(1+2j)", "(2.5-1j)", "3.5j", "complex(1e100, -2)"],
    "str": ["'a'", "'it\\'s'", "'ü\U0001F600'", "''", "' pad '", "'tab\\there'", "'q\"uo\\'te'"],
    "mlstr": ["'a\\nb'", "'x\\n\\ny\\n'", "' lead\\n trail \\n'"],
    "bytes": ["b'ab'", "b''", "b'\\x00\\xff'", "b'it\\'s'"],
    "enum": ["Color.RED", "Color.GREEN"], "flag": ["Perm.R"], "flagcombo": ["Perm.R | Perm.W", "Perm.R | Perm.W | Perm.X"],
    "flag0": ["Perm(0)"], "type": ["int", "DC", "Color", "collections.OrderedDict"],
    "hasrepr": ["Weird(7)"], "hasrepr_nested": ["Pixel(Color.RED)", "Pixel(Perm.R | Perm.W, 2)", "Pixel(int, {3, 1, 2})"],
    "usercustom": ["Money(5, Color.GREEN)", "Money(1.5, Perm.R)", "Money([1], DC(1))"], "dataclass": ["DC(1)", "DC(a=[1, 2], b=6, c=[3])", "DC(a=DC(2), b='x')"],
    "dataclass_default": ["DC(1, 5)", "DC('v', 5, [])"], "dataclass_factory": ["DC(1, c=[])", "DC(2, 6, [])"],
    "dataclass_norepr": ["DCNR(1, hidden=9)"],
    "attrs": ["AT(1)", "AT('x', b=2)", "AT([1], b=1)"], "pydantic": ["PD(a=1)", "PD(a=[1], b=3)", "PD(a='s', b=2)"],
    "namedtuple": ["NT(1)", "NT(a=2, b=4)", "NT('x', 3)"],
    "defaultdict": ["collections.defaultdict(list, {'k': [1]})", "collections.defaultdict(int)"],
    "external": ["outsource('text data')", "outsource(b'bin', suffix='.dat')", "outsource('café\\n')"],
}
ORDER_TAGS = {"int", "negint", "bigint", "bool", "float", "negfloat", "str", "mlstr", "bytes"}


def wrap(cont, v, second):
    return {"none": v, "list": "[%s, %s]" % (v, second), "tuple1": "(%s,)" % v, "tuple": "(%s, %s)" % (v, second),
            "dictval": "{'k': %s, 'z': %s}" % (v, second), "dictkey": "{%s: 1}" % v, "set": "{%s}" % v,
            "frozenset": "frozenset([%s])" % v, "nested": "[{'a': (%s,)}, [%s, []]]" % (v, v),
            "dataclass_field": "DC(a=%s, b=%s)" % (v, second)}[cont]


def test_source(k, case, rng):
    c = case["c"]
    vals = VALUES[c["tag"]]
    v = rng.choice(vals)
    second = rng.choice(vals) if c["op"] in ("le", "ge") or c["cont"] in ("tuple", "list") else v
    x = wrap(c["cont"], v, second)
    op, place = c["op"], c["place"]
    S = "snapshot()"
    pre = ""
    if place == "module":
        pre = "S%d = snapshot()\n\n\n" % k
        S = "S%d" % k
    if op == "eq":
        body = "check(%s, %s)" % (x, S) if place == "helper" else "assert %s == %s" % (x, S)
    elif op == "le":
        body = "assert %s <= %s" % (x, S)
    elif op == "ge":
        body = "assert %s >= %s" % (x, S)
    elif op == "in":
        body = "assert %s in %s" % (x, S)
    else:
        body = "assert %s['key'] == %s" % (S, x)
    if place == "loop" and op == "in":
        # the tested object grows between the iterations (three states of one mutable list)
        x2 = wrap(c["cont"], second, v)
        body = "_acc = []\n    for _v in [%s, %s, %s]:\n        _acc.append(_v)\n        assert _acc in %s" % (x, x2, x, S)
        x = "[%s] / [.., %s] / [.., .., %s] (one growing list)" % (x, x2, x)
    elif place == "loop":
        # an == snapshot compared with two different values would contradict itself
        x2 = x if op in ("eq", "getitem") else wrap(c["cont"], second, v)
        body = "for _v in [%s, %s]:\n        %s" % (x, x2, body.replace(x, "_v", 1))
    if place == "helper" and op != "eq":
        body = "_x = %s\n    %s" % (x, body.replace(x, "_x", 1))
    return pre + "def test_%d():\n    %s\n\n\n" % (k, body), x


def load_cases(path: Path, seed: int, limit=None):
    cases = json.loads(path.read_text())["cases"]
    for c in cases:
        c["h"] = zlib.crc32(("%s|%s" % (json.dumps(c["c"], sort_keys=True), seed)).encode())
    cases.sort(key=lambda c: c["h"])
    return cases[:limit] if limit else cases


def run_batch(args):
    batch, seed = args
    from . import session_driver as sd
    rng = random.Random("%s|%s" % (batch[0]["h"], seed))
    parts, exprs = [HEADER], []
    for k, case in enumerate(batch):
        src, x = test_source(k, case, rng)
        parts.append(src)
        exprs.append(x)
    text = "".join(parts)
    d = Path(tempfile.mkdtemp(prefix="verif_cg_"))
    try:
        f = d / "test_gen.py"
        f.write_text(text)
        r1 = sd.run_fork(d, ["--inline-snapshot=create"], timeout=180)
        new = f.read_text()
        r2 = sd.run_fork(d, ["--inline-snapshot=disable"], timeout=180)
        oc = sd.outcomes(r2)
        out = []
        internal = r1["rc"] not in (0, 1) or "INTERNALERROR" in r1["stdout"]
        if internal and len(batch) > 1:
            # one value for which no valid code can be generated stops the whole session: attribute it by
            # running every case of the batch on its own
            res = []
            for case in batch:
                res += run_batch(([case], seed))
            return res
        if len(batch) > 1 and any(oc.get("test_gen.py::test_%d" % k) is None for k in range(len(batch))):
            # the module could not even be imported when disabled (a module-level snapshot without valid code):
            # attribute it by running every case on its own
            res = []
            for case in batch:
                res += run_batch(([case], seed))
            return res
        for k, case in enumerate(batch):
            o = oc.get("test_gen.py::test_%d" % k)
            mism = []
            if internal:
                mism.append({"clause": "create-session-crashed", "props": ["C18", "C01"], "detail": r1["stdout"][-700:]})
            elif o != "passed":
                # what was written for this test
                lines = [l for l in new.split("def test_%d():" % k)[1].split("\n\n\n")[0].splitlines()] if ("def test_%d():" % k) in new else []
                why = ""
                for l in r2["stdout"].splitlines():
                    if ("test_%d " % k) in l or ("test_%d -" % k) in l:
                        why = l.strip()[:300]
                mism.append({"clause": "reads-back", "props": ["C01"],
                             "detail": {"value": exprs[k], "outcome_when_disabled": o, "written": lines[:6], "why": why}})
            out.append({"h": case["h"], "case": case["c"], "mism": mism, "value": exprs[k]})
        return out
    finally:
        shutil.rmtree(d, ignore_errors=True)



def run_fixed_point(args):
    """C08 on representation fixed points: values of every type tag are created with all four categories
    approved; the second identical session must not change a byte, the third (no flags) must be green and
    report nothing to create, fix or trim"""
    batch, seed = args
    from . import session_driver as sd
    from .drivers_replay import shown_categories
    rng = random.Random("%s|%s|fp" % (batch[0]["h"], seed))
    parts, exprs = [HEADER], []
    for k, case in enumerate(batch):
        src, x = test_source(k, case, rng)
        parts.append(src)
        exprs.append(x)
    d = Path(tempfile.mkdtemp(prefix="verif_fp_"))
    try:
        f = d / "test_gen.py"
        f.write_text("".join(parts))
        allf = ["--inline-snapshot=create,fix,trim,update"]
        r1 = sd.run_fork(d, allf, timeout=180)
        t1 = f.read_text()
        if r1["rc"] not in (0, 1) or "INTERNALERROR" in r1["stdout"]:
            if len(batch) > 1:
                res = []
                for case in batch:
                    res += run_fixed_point(([case], seed))
                return res
            return [{"h": batch[0]["h"], "case": batch[0]["c"], "value": exprs[0], "mism": []}]    # C01's business
        r2 = sd.run_fork(d, allf, timeout=180)
        t2 = f.read_text()
        r3 = sd.run_fork(d, ["--inline-snapshot=report"], timeout=180)
        t3 = f.read_text()
        oc = sd.outcomes(r3)
        shown = shown_categories(r3["stdout"])
        out = []
        for k, case in enumerate(batch):
            mism = []

            def body(text):
                key = "def test_%d():" % k
                return text.split(key)[1].split("\n\n\n")[0] if key in text else None
            if body(t1) != body(t2) or body(t2) != body(t3):
                mism.append({"clause": "second-run-writes", "props": ["C08"],
                             "detail": {"value": exprs[k], "after_run1": body(t1), "after_run2": body(t2), "after_run3": body(t3)}})
            out.append({"h": case["h"], "case": case["c"], "value": exprs[k], "mism": mism})
        if t1 == t2 == t3:
            bad = [c for c in shown if c in ("create", "fix", "trim")]
            if bad and len(batch) == 1:
                out[0]["mism"].append({"clause": "pending-after-all", "props": ["C08"], "detail": {"value": exprs[0], "shown": shown}})
            elif bad:
                res = []
                for case in batch:
                    res += run_fixed_point(([case], seed))
                return res
        return out
    finally:
        shutil.rmtree(d, ignore_errors=True)
