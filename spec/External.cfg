\* external storage over histories of <= MaxSteps steps
SPECIFICATION MSpec
CONSTANTS
  Data = {"d1", "d2", "d3"}
  Files = {"fa", "fb"}
  Prefix <- PrefixDef
  MaxSteps = 5
  ReviewTrims = FALSE
  Collide = FALSE
INVARIANT LookupIsExact
PROPERTY PersistOnlyWithReference
PROPERTY RemoveOnlyByApprovedTrim
PROPERTY NewNeverSurvivesStart
PROPERTY OnlySessionsTouchStorage
PROPERTY WrittenReferenceResolves
CHECK_DEADLOCK FALSE
