\* cases of code generation (C01) and set ordering (C16)
SPECIFICATION Spec
CONSTANTS
  Mode = "mc"
  PreSort = TRUE
INVARIANT C01
INVARIANT C16
CHECK_DEADLOCK FALSE
