---------------------------- MODULE TraceRewrite ----------------------------
(***************************************************************************)
(* Code -> spec: validation of recorded executions of the end-of-session   *)
(* pipeline (with one injected fault) against ISRewrite.                   *)
(*                                                                         *)
(* A trace is the sequence of boundary events that the harness plugin      *)
(* verif_faults logged (fmt, open-r, rename, open-w, remove; the event at  *)
(* which the fault was injected carries its kind) plus the observed final  *)
(* state (class of every test file, state of every external, context       *)
(* popped).  Steps without an event of their own (StartPrep, Parse,        *)
(* Persist of a file without external, Write after a successful open,      *)
(* Trim) are silent steps composed into TraceNext; they are bounded        *)
(* because every silent step advances the pipeline.                        *)
(* All traces of a batch are checked in one TLC run: `tid` selects the     *)
(* trace; a trace is ACCEPTED when some behaviour consumes every event     *)
(* and ends in a state that matches the observation (reported with         *)
(* PrintT, one line per trace and verdict).                                *)
(***************************************************************************)
EXTENDS MC_Rewrite, Json, IOUtils, TLCExt

Batch == JsonDeserialize(IOEnv.TRACE_FILE)        \* [traces |-> <<[events, final, mode], ...>>]
VARIABLES tid, l
tvars == <<vars, tid, l>>
Tr == Batch.traces[tid]
Ev == Tr.events[l]
More == l <= Len(Tr.events)
Consume == l' = l + 1 /\ UNCHANGED tid
Keep == UNCHANGED <<tid, l>>
FileOf(name) == name          \* events name the files as the spec does: "fa", "fb", ...
IsFault(k) == More /\ Ev.fault = k
NoFault == More /\ Ev.fault = "none"

TInit == Init /\ tid \in 1..Len(Batch.traces) /\ l = 1

\* ---- events
TFmt == /\ More /\ Ev.ev = "fmt" /\ Consume
        /\ CASE Ev.fault = "none" -> FmtOk
             [] Ev.fault = "fmt-error" -> FmtError          \* non-zero exit of the command / exception inside black
             [] Ev.fault = "fmt-garbage" -> (FmtGarbage \/ FmtCheckGarbage)
             [] Ev.fault = "exception" -> Exception         \* the invocation itself raised (e.g. undecodable output)
             [] Ev.fault = "crash" -> Crash
             [] OTHER -> FALSE
TRead == /\ More /\ Ev.ev = "open-r" /\ Consume
         /\ CASE Ev.fault = "none" -> Running /\ UNCHANGED vars
              [] Ev.fault = "exception" -> Exception
              [] Ev.fault = "crash" -> Crash
              [] OTHER -> FALSE
\* rename = the persist of the current file's external
TRename == /\ More /\ Ev.ev = "rename" /\ Consume /\ phase = "prep" /\ sub = "persist" /\ Cur \in HasExt
           /\ CASE Ev.fault = "none" -> Persist
                [] Ev.fault = "exception" -> Exception
                [] Ev.fault = "crash" -> Crash
                [] OTHER -> FALSE
\* open for writing: the truncating open; the write itself has no event
TOpenW == /\ More /\ Ev.ev = "open-w" /\ Consume /\ phase = "write" /\ sub = "compute" /\ Cur = FileOf(Ev.file)
          /\ CASE Ev.fault = "none" -> Open
               [] Ev.fault = "exception" -> Exception
               [] Ev.fault = "crash" -> Crash
               [] Ev.fault \in {"write-exception", "write-crash"} -> Open
               [] OTHER -> FALSE
TRemove == /\ More /\ Ev.ev = "remove" /\ Consume /\ phase = "trim"
           /\ CASE Ev.fault = "none" -> UNCHANGED vars
                [] Ev.fault = "exception" -> Exception
                [] Ev.fault = "crash" -> Crash
                [] OTHER -> FALSE
\* ---- silent steps
PrevFault == IF l > 1 THEN Tr.events[l - 1].fault ELSE "none"
Silent == /\ Keep
          /\ \/ StartPrep
             \/ Parse
             \/ (Persist /\ Cur \notin HasExt)
             \/ (Write /\ PrevFault \notin {"write-exception", "write-crash"})
             \/ (sub = "write" /\ PrevFault = "write-exception" /\ Exception)
             \/ (sub = "write" /\ PrevFault = "write-crash" /\ Crash)
             \/ (phase = "write" /\ sub = "compute" /\ buf = "garbage" /\ ParseInWrite /\ Open)   \* refused before the open
             \/ (Trim /\ ~More)
             \/ NextStart
TNext == TFmt \/ TRead \/ TRename \/ TOpenW \/ TRemove \/ Silent
TSpec == TInit /\ [][TNext]_tvars

\* ---- acceptance: all events consumed, pipeline finished (and the next start simulated), observation matches
Class(d) == IF d \in {"new", "unf"} THEN "complete" ELSE d
AtEnd == ~More /\ phase = "done" /\ started
DiskOK == \A f \in Files : Class(disk[f]) = Tr.final.disk[f]
StoreOK == \A f \in Files : store[f] = Tr.final.store[f]
PopOK == Tr.final.popped = "unknown" \/ (popped <=> Tr.final.popped = "yes")
\* one line per end state: does it match the observation, and do the properties hold in it
Report == AtEnd => PrintT(<<"END", tid, DiskOK, StoreOK, PopOK, AtomicStrict, NoGarbage, NoDangling, AlwaysPopped>>)
\* the properties that hold as coded are also evaluated on every state of every trace
TraceAtomic == Atomic
TracePersistFirst == PersistFirst
=============================================================================
