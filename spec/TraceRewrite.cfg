\* validation of recorded (faulted) executions; Order / HasExt are written per batch by the harness
SPECIFICATION TSpec
CONSTANTS
  Order <- OrderDef
  HasExt <- HasExtDef
  AtomicWrite = FALSE
  ParseInWrite = TRUE
INVARIANT Report
INVARIANT TraceAtomic
INVARIANT TracePersistFirst
CHECK_DEADLOCK FALSE
