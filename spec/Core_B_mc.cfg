\* two sites, two tests: interleavings of evaluations over the sites (C14), aborts across sites (C07, C02)
SPECIFICATION Spec
CONSTANTS
  NAtoms = 2
  Keys = {1}
  SiteOps = {"eq", "le", "in", "dict"}
  ChildOps = {"deq"}
  WrongOps = {}
  ChgOK = FALSE
  HostileOK = FALSE
  NSites = 2
  NTests = 2
  MaxStmts = 2
  MaxRuns = 1
  MaxSrcLen = 1
  Mode = "mc"
  Stride = 1
  Offset = 0
  Fuel = 6
  AbortOK = FALSE
INVARIANT C07
INVARIANT C06
INVARIANT C05fixiff
INVARIANT C05fixrepairs
INVARIANT C05create
INVARIANT C05update
INVARIANT C05trim
INVARIANT C05trimkeeps
INVARIANT C04inert
INVARIANT C08all
INVARIANT C08same
INVARIANT C09
INVARIANT C14
INVARIANT C19
CHECK_DEADLOCK FALSE
