\* re-evaluation of a snapshot() call with dynamic (Is) and in-place mutated parts
SPECIFICATION Spec
CONSTANTS
  NSlots = 2
  Atoms = {0, 1, 2}
  MaxEvals = 3
  Mode = "mc"
  Stride = 1
  Offset = 0
INVARIANT Transparent
INVARIANT UsageErrorIff
INVARIANT Emit
PROPERTY Terminates
CHECK_DEADLOCK FALSE
