----------------------------- MODULE MC_CodeGen -----------------------------
EXTENDS ISCodeGen, Json, IOUtils, SequencesExt
CONSTANTS Mode, PreSort
VARIABLES c, step
Init == c \in {x \in Case : Valid(x)} /\ step = 0
Next == step = 0 /\ step' = 1 /\ UNCHANGED c
Spec == Init /\ [][Next]_<<c, step>>
\* C01 at the design level: every valid case either reads back or is a listed gap; needed imports are added
C01 == (ReadsBack(c) \/ KnownGap(c.tag)) /\ NeedsImport(c.tag) \subseteq ImportsAdded(c)
\* C16: the written order of set elements never depends on the iteration order
C16 == \A cls \in ElemClasses : Deterministic(cls, PreSort)
CaseSeq == SetToSeq({x \in Case : Valid(x)})
\* the cases are written once, when the module is loaded
ASSUME Mode = "emit" =>
   LET cs == CaseSeq IN
   JsonSerialize(IOEnv.OUT_DIR \o "/cases.json",
                 [cases |-> [n \in 1..Len(cs) |-> [c |-> cs[n], strategy |-> Strategy(cs[n].tag),
                                                  imports |-> SetToSeq(NeedsImport(cs[n].tag)),
                                                  gap |-> KnownGap(cs[n].tag)]]])
=============================================================================
