------------------------------ MODULE TraceCore ------------------------------
(***************************************************************************)
(* Code -> spec for the per-site core: recorded executions of generated    *)
(* test programs BEYOND the bounds of MC_Core (more sites, tests,          *)
(* statements and atoms) are validated against ISCore.                     *)
(*                                                                         *)
(* A trace = the sources of the sites, the flags of the session, one event *)
(* per executed statement (test, site, operation, key, value, assert flag  *)
(* and the OBSERVED outcome), and the observed end of the session (failed  *)
(* flag per test, pending categories per site, source argument per site    *)
(* after the approved changes were applied).  The specification is         *)
(* stepped along the events with ISCore.Step; every observation is         *)
(* compared with what the step yields.  The verdict is total: a mismatch   *)
(* is recorded (first failing event / clause) and the rest of the trace is *)
(* still checked.  One line <<"VERDICT", tid, ...>> per trace.             *)
(***************************************************************************)
EXTENDS ISCore, Json, IOUtils, TLCExt

Batch == JsonDeserialize(IOEnv.TRACE_FILE)        \* [traces |-> <<trace, ...>>]
VARIABLES tid, l, sts, tst, bad
\* tst = per test [miss, inc, aborted]; bad = sequence of <<event index, clause>>
tvars == <<tid, l, sts, tst, bad>>
Tr == Batch.traces[tid]
SetOf(s) == {s[j] : j \in DOMAIN s}
Uf == SetOf(Tr.U)
Af == SetOf(Tr.A)
NSites == Len(Tr.srcs)
NTests == Tr.ntests

TInit == /\ tid \in 1..Len(Batch.traces) /\ l = 1
         /\ sts = [i \in 1..Len(Batch.traces[tid].srcs) |-> IF Batch.traces[tid].imp THEN StEv ELSE St0]
         /\ tst = [t \in 1..Batch.traces[tid].ntests |-> [miss |-> 0, inc |-> 0, aborted |-> FALSE]]
         /\ bad = <<>>
Ev == Tr.events[l]
TStep == /\ l <= Len(Tr.events)
         /\ LET e == Ev
                q == Step(Tr.srcs[e.site], sts[e.site], Uf, e)
                abort == q.res \in {"TE", "UE", "EX"} \/ (e.assert /\ q.res = "F")
            IN /\ sts' = [sts EXCEPT ![e.site] = q.st]
               \* (e.t = 0: a statement at module level, outside of every test - no test is charged for it)
               /\ tst' = IF e.t = 0 THEN tst
                         ELSE [tst EXCEPT ![e.t] = [miss |-> @.miss + q.miss, inc |-> @.inc + q.inc, aborted |-> @.aborted \/ abort]]
               \* the observed outcome of the statement; a statement observed after the model aborted the test
               \* is a mismatch as well
               /\ bad' = IF q.res # e.res THEN Append(bad, <<l, "result", q.res, e.res>>)
                         ELSE IF e.t # 0 /\ tst[e.t].aborted THEN Append(bad, <<l, "executed-after-abort", q.res, e.res>>)
                         ELSE bad
         /\ l' = l + 1 /\ UNCHANGED tid
TSpec == TInit /\ [][TStep]_tvars

AtEnd == l > Len(Tr.events)
FailedOK == \A t \in 1..NTests : (tst[t].aborted \/ tst[t].miss > 0 \/ tst[t].inc > 0) = Tr.failed[t]
PendingOK == \A i \in 1..NSites : Pending(Tr.srcs[i], sts[i]) = SetOf(Tr.pending[i])
Norm(s) == [def |-> s.def, e |-> [j \in DOMAIN s.e |-> [k |-> s.e[j].k, v |-> s.e[j].v, canon |-> s.e[j].canon]]]
SrcOK == \A i \in 1..NSites : NewSrc(Tr.srcs[i], sts[i], Af) = Norm(Tr.after[i])
Verdict == AtEnd => PrintT(<<"VERDICT", tid, bad = <<>>, FailedOK, PendingOK, SrcOK, bad>>)
=============================================================================
