\* string literals: longer strings over the classes that decide the quoting (both kinds of triple quotes fit in)
SPECIFICATION Spec
CONSTANTS
  N = 8
  Alphabet = {"nl", "sq", "dq", "a"}
  EscapeFinalTwice = FALSE
  Mode = "mc"
  Stride = 1
  Offset = 0
INVARIANT RoundTrip
INVARIANT TripleIffMultiline
INVARIANT Emit
CHECK_DEADLOCK FALSE
