------------------------------ MODULE ISPartial ------------------------------
(***************************************************************************)
(* The life cycle of ONE `== snapshot({...})` call site whose comparisons  *)
(* can fail half way: the structural assignment (adapter.assign) is a      *)
(* generator that yields one change per differing entry; comparing an      *)
(* entry of the compared value may raise (an __eq__ that rejects foreign   *)
(* types).  The site is compared several times in one session (a helper,   *)
(* a parametrised test, a loop); the first comparison that COMPLETES fixes *)
(* the new value.                                                          *)
(*                                                                         *)
(* Code anchors: _snapshot/eq_value.py:EqValue.__eq__ (the loop around     *)
(* next(it)), _adapter/dict_adapter.py:assign (entries in order),          *)
(* _adapter/value_adapter.py:assign (old == new, then Replace),            *)
(* generic_value.py:_return, _rewrite_code.py:SourceFile._check (two       *)
(* changes of one node = overlapping replacements = AssertionError at the  *)
(* end of the session).                                                    *)
(*                                                                         *)
(* One action per linearisation point: Begin (clone, _changes reset),      *)
(* Entry (one entry compared: nothing / a change is yielded), Raise (the   *)
(* entry comparison raises: the generator is abandoned), Finish            *)
(* (StopIteration: _new_value is set), Answer (old == other, new == other  *)
(* -> _return), End (session end: changes are applied).                    *)
(***************************************************************************)
EXTENDS Naturals, Sequences, FiniteSets, TLC

CONSTANTS K,               \* entries of the dict
          Atoms,           \* plain values
          MaxCmp,          \* comparisons per session
          ResetOnAttempt   \* as coded (TRUE): every attempt starts with an empty change list.  Design alternative
                           \* FALSE: the list is created once when the kind of the site is decided
Boom == 99                 \* an entry whose comparison with a foreign value raises
Vals == [1..K -> Atoms \cup {Boom}]
SeqUpTo(S, n) == UNION {[1..m -> S] : m \in 1..n}

VARIABLES seqlike,   \* the compared container is a list (aligned first: every pair of elements is compared before the
                     \* first change is yielded) instead of a dict (entries are compared one after the other)
          old,       \* the container in the source
          cmps,      \* the compared values of the session, in order (one test each)
          fix,       \* fix is approved
          ci,        \* index of the current comparison
          pc,        \* "idle" | "assign" | "answer" | "done"
          pos,       \* next entry of the running assignment
          changes,   \* _changes: sequence of [k, v]
          newv,      \* _new_value: <<>> = undefined
          res,       \* answers given to the tests: "T" | "F" | "EX"
          inc,       \* incorrect_values increments per comparison
          final, err \* the source after the session; the session end raised
vars == <<seqlike, old, cmps, fix, ci, pc, pos, changes, newv, res, inc, final, err>>

Init == /\ seqlike \in BOOLEAN /\ old \in [1..K -> Atoms] /\ cmps \in SeqUpTo(Vals, MaxCmp) /\ fix \in BOOLEAN
        /\ ci = 1 /\ pc = "idle" /\ pos = 1 /\ changes = <<>> /\ newv = <<>> /\ res = <<>> /\ inc = <<>>
        /\ final = <<>> /\ err = FALSE
Cur == cmps[ci]
\* Python's dict == dict: entries in order, the first unequal pair answers False, an entry comparison may raise
RECURSIVE Scan(_, _, _)
Scan(a, b, k) == IF k > K THEN "T" ELSE IF a[k] = b[k] THEN Scan(a, b, k + 1) ELSE IF b[k] = Boom \/ a[k] = Boom THEN "EX" ELSE "F"

Begin == /\ pc = "idle" /\ ci <= Len(cmps)
         /\ IF newv = <<>>
            THEN /\ pc' = "assign" /\ pos' = 1
                 /\ changes' = IF ResetOnAttempt THEN <<>> ELSE changes
            ELSE /\ pc' = "answer" /\ UNCHANGED <<pos, changes>>
         /\ UNCHANGED <<seqlike, old, cmps, fix, ci, newv, res, inc, final, err>>
HasBoom(v) == \E k \in 1..K : v[k] = Boom
\* a list is aligned with the old one first: the comparison of some pair raises before anything is yielded
AlignRaise == /\ pc = "assign" /\ seqlike /\ pos = 1 /\ HasBoom(Cur)
              /\ res' = Append(res, "EX") /\ inc' = Append(inc, 0) /\ ci' = ci + 1 /\ pc' = "idle"
              /\ UNCHANGED <<seqlike, old, cmps, fix, pos, changes, newv, final, err>>
\* one entry: equal -> nothing, different -> a fix change of that node
Entry == /\ pc = "assign" /\ pos <= K /\ Cur[pos] # Boom /\ ~(seqlike /\ HasBoom(Cur))
         /\ changes' = IF Cur[pos] # old[pos] THEN Append(changes, [k |-> pos, v |-> Cur[pos]]) ELSE changes
         /\ pos' = pos + 1
         /\ UNCHANGED <<seqlike, old, cmps, fix, ci, pc, newv, res, inc, final, err>>
\* the entry comparison raises: the test sees the exception, the generator is abandoned where it is
Raise == /\ pc = "assign" /\ pos <= K /\ Cur[pos] = Boom /\ ~seqlike
         /\ res' = Append(res, "EX") /\ inc' = Append(inc, 0) /\ ci' = ci + 1 /\ pc' = "idle"
         /\ UNCHANGED <<seqlike, old, cmps, fix, pos, changes, newv, final, err>>
Finish == /\ pc = "assign" /\ pos > K /\ newv' = Cur /\ pc' = "answer"
          /\ UNCHANGED <<seqlike, old, cmps, fix, ci, pos, changes, res, inc, final, err>>
Answer == /\ pc = "answer"
          /\ LET ro == Scan(old, Cur, 1)
                 rn == Scan(newv, Cur, 1)
             IN IF ro = "EX" \/ rn = "EX"
                THEN res' = Append(res, "EX") /\ inc' = Append(inc, 0)
                ELSE /\ res' = Append(res, IF fix THEN rn ELSE ro)
                     /\ inc' = Append(inc, IF ro = "T" THEN 0 ELSE 1)
          /\ ci' = ci + 1 /\ pc' = "idle"
          /\ UNCHANGED <<seqlike, old, cmps, fix, pos, changes, newv, final, err>>
\* the end of the session: two changes of one node overlap
Dup == \E a, b \in DOMAIN changes : a # b /\ changes[a].k = changes[b].k
End == /\ pc = "idle" /\ ci > Len(cmps) /\ pc' = "done"
       \* (as coded the changes of an abandoned last attempt are applied as well: the entries in front of the one
       \*  whose comparison raised did differ from the source)
       /\ err' = Dup
       /\ final' = IF fix /\ ~Dup
                   THEN [k \in 1..K |-> IF \E a \in DOMAIN changes : changes[a].k = k
                                        THEN changes[CHOOSE a \in DOMAIN changes : changes[a].k = k].v ELSE old[k]]
                   ELSE old
       /\ UNCHANGED <<seqlike, old, cmps, fix, ci, pos, changes, newv, res, inc>>
Next == Begin \/ AlignRaise \/ Entry \/ Raise \/ Finish \/ Answer \/ End
Spec == Init /\ [][Next]_vars /\ WF_vars(Next)

(* ---------------- what the properties say ---------------- *)
\* C18: the end of the session never fails
Completes == ~err
Terminates == <>(pc = "done")
\* C02/C05: the recorded changes are exactly the difference to the first value whose comparison completed -
\* a comparison that raised leaves no trace
ChangesAreDiff == (pc \in {"answer", "idle", "done"} /\ newv # <<>>) =>
                     /\ ~Dup
                     /\ {changes[a].k : a \in DOMAIN changes} = {k \in 1..K : old[k] # newv[k]}
                     /\ \A a \in DOMAIN changes : changes[a].v = newv[changes[a].k]
\* no comparison completed: what is recorded is the difference in front of the entry that raised in the LAST
\* attempt (nothing for a list) - never a mixture of several attempts
LastAttempt == IF ci > Len(cmps) THEN Len(cmps) ELSE ci - 1
Before(v) == {k \in 1..K : \A j \in 1..k : v[j] # Boom}
PartialIsPrefix == (pc \in {"idle", "done"} /\ newv = <<>> /\ LastAttempt > 0) =>
                     /\ ~Dup
                     /\ LET v == cmps[LastAttempt] IN
                        /\ {changes[a].k : a \in DOMAIN changes} = IF seqlike THEN {} ELSE {k \in Before(v) : old[k] # v[k]}
                        /\ \A a \in DOMAIN changes : changes[a].v = v[changes[a].k]
\* C02: with fix approved the source ends as the first completed value
FixGivesFirstCompleted == (pc = "done" /\ fix /\ newv # <<>>) => final = newv
\* C04: nothing approved, nothing changes
Inert == (pc = "done" /\ ~fix) => final = old
\* C07: a comparison that does not hold against the source is counted (or raises)
Counted == \A c \in DOMAIN res : (res[c] # "EX" /\ cmps[c] # old) => inc[c] = 1
FirstCompleted == IF \E c \in DOMAIN cmps : \A k \in 1..K : cmps[c][k] # Boom
                  THEN cmps[CHOOSE c \in DOMAIN cmps : (\A k \in 1..K : cmps[c][k] # Boom)
                                 /\ \A d \in 1..(c - 1) : \E k \in 1..K : cmps[d][k] = Boom]
                  ELSE <<>>
NewIsFirstCompleted == pc = "done" => newv = FirstCompleted
=============================================================================
