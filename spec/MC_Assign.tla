----------------------------- MODULE MC_Assign -----------------------------
(***************************************************************************)
(* Bounded universes of (term, value) pairs for ISAssign, the properties   *)
(* C02 / C05(update) / C08 / C09 / C10 / C11 at the structural level, and  *)
(* the emission of cases for the replay into the real code.                *)
(* The state is the term; values are quantified inside the invariants, so  *)
(* that TLC's workers share the terms.                                     *)
(***************************************************************************)
EXTENDS ISAssign, Json, IOUtils, SequencesExt, FiniteSetsExt

CONSTANTS NAtoms, Width, Shape, Mode, Stride, TStride, Offset

\* class 1: (f1, f2 = 0)      class 2: (f1, f2 = 1, f3 = 0)
FieldsDef == <<  <<[hasdef |-> FALSE, def |-> 0], [hasdef |-> TRUE, def |-> 0]>>,
                 <<[hasdef |-> FALSE, def |-> 0], [hasdef |-> TRUE, def |-> 1], [hasdef |-> TRUE, def |-> 0]>>,
                 \* class 3: positional (defaultdict): (factory, items = {} by default)
                 <<[hasdef |-> FALSE, def |-> 0], [hasdef |-> TRUE, def |-> 0]>> >>
Atoms == 0..(NAtoms - 1)
SeqUpTo(S, n) == UNION {[1..m -> S] : m \in 0..n}
Keys == {11, 12, 13}
KeySeqs(n) == {ks \in SeqUpTo(Keys, n) : \A a, b \in DOMAIN ks : a # b => ks[a] # ks[b]}

Val0 == {I(n) : n \in Atoms}
LitH == {Lit(n, FALSE) : n \in Atoms}
Leaf0 == {Lit(n, c) : n \in Atoms, c \in BOOLEAN} \cup {IsT(n) : n \in Atoms}
LeafS == Leaf0 \cup {FS(n) : n \in Atoms}

SmallL == {L(e) : e \in SeqUpTo(Val0, 2)}
SmallLT == {LT(e) : e \in SeqUpTo(LitH \cup {IsT(0)}, 2)}

\* "flat": longer sequences of canonical atoms - every edit script of the alignment (deletions, insertions and
\* replacements at several places, repeated values) with all lengths up to Width
LitC == {Lit(n, TRUE) : n \in Atoms}
Terms ==
  CASE Shape = "flat" -> {LT(e) : e \in SeqUpTo(LitC, Width)} \cup {TT(e) : e \in SeqUpTo(LitC, Width) \ {<<>>}}
    [] Shape = "seq" -> {LT(e) : e \in SeqUpTo(LeafS, Width)} \cup {TT(e) : e \in SeqUpTo(LeafS, Width)}
    [] Shape = "nest" -> {LT(e) : e \in SeqUpTo(LitH \cup {IsT(1)} \cup SmallLT, 2)}
                         \cup {HT(v) : v \in SmallL} \cup {SL(v) : v \in SmallL}
                         \cup {LT(<<x, y>>) : x \in {SL(L(<<I(0)>>)), HT(L(<<I(1)>>))}, y \in LitH}
    [] Shape = "inner" ->
         LET inner == {SN(<<>>)} \cup {SN(<<Lit(n, c)>>) : n \in Atoms, c \in BOOLEAN}
                      \cup {SN(<<LT(<<Lit(0, FALSE)>>)>>), SN(<<SN(<<Lit(1, TRUE)>>)>>)}
             el == inner \cup LitH \cup {LT(<<x>>) : x \in inner} \cup {LT(<<x, Lit(1, TRUE)>>) : x \in inner}
         IN inner \cup {LT(e) : e \in SeqUpTo(el, 2)}
            \cup {DT(<<11>>, <<x>>) : x \in inner} \cup {DT(<<11, 12>>, <<x, y>>) : x \in inner, y \in LitH \cup inner}
    [] Shape = "dict" -> {d \in {DT(ks, e) : ks \in KeySeqs(Width), e \in SeqUpTo(Leaf0, Width)} : Len(d.k) = Len(d.e)}
    \* (the constructor of a defaultdict consumes its arguments: they cannot be Is(...) objects)
    [] Shape = "pos" -> {CT(PosCls, p, <<>>, <<>>) : p \in SeqUpTo({Lit(n, c) : n \in Atoms, c \in BOOLEAN}, 2)}
    [] Shape = "call" -> {c \in {CT(cl, p, kn, ke) : cl \in (DOMAIN Fields) \ {PosCls}, p \in SeqUpTo(Leaf0, 1),
                                   kn \in SeqUpTo(1..3, 2), ke \in SeqUpTo(Leaf0, 2)} :
                             Len(c.kn) = Len(c.ke) /\ WellFormedCall(c)}
Vals ==
  CASE Shape = "flat" -> {L(e) : e \in SeqUpTo(Val0, Width)} \cup {T(e) : e \in SeqUpTo(Val0, Width)}
    [] Shape = "seq" -> Val0 \cup {L(e) : e \in SeqUpTo(Val0, Width)} \cup {T(e) : e \in SeqUpTo(Val0, Width)}
    [] Shape = "nest" -> Val0 \cup {L(e) : e \in SeqUpTo(Val0 \cup SmallL, 2)}
    [] Shape = "inner" -> Val0 \cup {L(e) : e \in SeqUpTo(Val0 \cup SmallL, 2)} \cup {D(<<11>>, <<x>>) : x \in Val0}
                          \cup {D(<<12, 11>>, <<x, y>>) : x, y \in Val0}
    [] Shape = "dict" -> Val0 \cup {d \in {D(ks, e) : ks \in KeySeqs(Width), e \in SeqUpTo(Val0, Width)} : Len(d.k) = Len(d.e)}
    [] Shape = "pos" -> Val0 \cup {C(PosCls, f) : f \in [1..2 -> Val0]}
    [] Shape = "call" -> Val0 \cup UNION {{C(cl, f) : f \in [1..Len(Fields[cl]) -> Val0]} : cl \in (DOMAIN Fields) \ {PosCls}}

TermSeq == SetToSeq(Terms)
ValSeq == SetToSeq(Vals)

VARIABLES tm, step, bucket, tid
vars == <<tm, step, bucket, tid>>
\* Init only chooses a bucket; the term is chosen by the first step, so that the workers evaluate the
\* invariants of different buckets in parallel
NBuckets == 64
Init == tm = LT(<<>>) /\ step = 0 /\ bucket \in 0..(NBuckets - 1) /\ tid = 0
Pick == /\ step = 0 /\ step' = 1 /\ UNCHANGED bucket
        /\ \E n \in 1..Len(TermSeq) : /\ n % NBuckets = bucket
                                        /\ (n \div NBuckets) % TStride = Offset % TStride
                                        /\ tm' = TermSeq[n] /\ tid' = n
Next == Pick
Spec == Init /\ [][Next]_vars

As == {{}, {"fix"}, {"update"}, {"fix", "update"}}
AllAs == SUBSET {"create", "fix", "trim", "update"}

(* C02: after fix (and create) every managed part agrees with the observed value *)
C02 == \A v \in Vals : ManagedEq(Assign(tm, v, {"create", "fix"}).term, v)
\* (findings F8 / F30: positional arguments - and every call of the positional class - are reported per argument)
HasPositional(t) == t.t = "ct" /\ (Len(t.p) > 0 \/ IsPos(t.c))
C05F8 == \A v \in Vals : VEq(Eval(tm), v) => "fix" \notin Assign(tm, v, {}).cats    \* fails: finding F8
\* the value can be repaired at all: after fix and update it is equal (no disagreeing user-controlled part)
Repairable(v) == VEq(Eval(Assign(tm, v, {"fix", "update"}).term), v)
(* C05: an update never changes the value; only fix and update occur for an existing value *)
C05 == \A v \in Vals : /\ VEq(Eval(Assign(tm, v, {"update"}).term), Eval(tm))
                       /\ Assign(tm, v, {}).cats \subseteq {"fix", "update"}
                       /\ Assign(tm, v, {}).term = tm
                       \* fix iff the comparison fails (finding F8: a positional argument of a dataclass-like
                       \* call is reported as fix although the values are equal - checked separately by C05F8)
                       /\ ((VEq(Eval(tm), v) /\ ~HasPositional(tm)) => "fix" \notin Assign(tm, v, {}).cats)
                       /\ ((~HasUser(tm) /\ ~VEq(Eval(tm), v)) => "fix" \in Assign(tm, v, {}).cats)
(* C08: applying the same set again changes nothing; after everything was approved nothing is pending *)
C08 == \A v \in {w \in Vals : Repairable(w)} : \A A \in As :
          LET r == Assign(tm, v, A) IN
            /\ Assign(r.term, v, A).term = r.term
            /\ (A = {"fix", "update"} => Assign(r.term, v, {}).cats = {})
(* C09: fix then update = update then fix = both at once *)
C09 == \A v \in {w \in Vals : Repairable(w)} :
          LET a == Assign(tm, v, {"fix"}).term b == Assign(tm, v, {"update"}).term
              ab == Assign(a, v, {"update"}).term ba == Assign(b, v, {"fix"}).term
              both == Assign(tm, v, {"fix", "update"}).term
          IN ab = both /\ ba = both
(* C10: the parts the user controls are never rewritten: what remains of them is an ordered selection of the
   original ones; without fix nothing of them disappears *)
C10 == \A v \in Vals : \A A \in As :
          LET r == Assign(tm, v, A) IN
            /\ IsSubSeq(UserParts(r.term), UserParts(tm))
            \* (a MANAGED keyword argument that has become the default is removed as a whole, also by update; an
            \*  argument that the user controls never is)
            /\ ("fix" \notin A => UserParts(r.term) = UserParts(tm))
(* C11: with fix but without update everything that is equal keeps its text *)
FixKeepsEqual == \A v \in Vals : (VEq(Eval(tm), v) /\ ~HasPositional(tm)) => Assign(tm, v, {"fix"}).term = tm
C11 == /\ FixKeepsEqual
       /\ \A v \in Vals :
            (tm.t \in {"lt", "tt"} /\ v.t = (IF tm.t = "lt" THEN "l" ELSE "t")) =>
               LET s == Script(tm.e, v.e, EqTV)
                   r == Assign(tm, v, {"fix"}).term
               IN /\ GoodScript(tm.e, v.e, s, EqTV)
                  \* every matched element is found verbatim at its new position
                  /\ \A p \in DOMAIN s : s[p] = "m" => r.e[NewBefore(s, p) + 1] = tm.e[OldBefore(s, p) + 1]
       /\ \A v \in Vals :
            (tm.t = "dt" /\ v.t = "d") =>
               LET r == Assign(tm, v, {"fix"}).term IN
               \A j \in DOMAIN tm.k : (Has(v.k, tm.k[j]) /\ VEq(Eval(tm.e[j]), v.e[Idx(v.k, tm.k[j])]))
                                         => (Has(r.k, tm.k[j]) /\ r.e[Idx(r.k, tm.k[j])] = tm.e[j])

(* ---------- emission ---------- *)
CatNum(c) == CASE c = "create" -> 1 [] c = "fix" -> 2 [] c = "trim" -> 3 [] c = "update" -> 4
CatSeq(S) == SetToSortSeq({CatNum(c) : c \in S}, <)
AsSeq == <<{}, {"fix"}, {"update"}, {"fix", "update"}>>
Emit == (Mode = "emit" /\ step = 1) =>
  LET vs == ValSeq
      sel == {n \in 1..Len(vs) : (n + tid) % Stride = Offset % Stride}
      cases == [n \in sel |-> [v |-> vs[n],
                               \* what `x == snapshot(..)` answers: without flags the comparison with the old value,
                               \* with fix/create/update approved the comparison with the merged new value
                               eqold |-> VEq(Eval(tm), vs[n]),
                               eqnew |-> VEq(Eval(Assign(tm, vs[n], {"fix", "update"}).term), vs[n]),
                               out |-> [a \in 1..4 |-> LET r == Assign(tm, vs[n], AsSeq[a])
                                                       IN [A |-> CatSeq(AsSeq[a]), term |-> r.term, cats |-> CatSeq(r.cats)]]]]
  IN JsonSerialize(IOEnv.OUT_DIR \o "/term_" \o ToString(tid) \o ".json",
                   [tm |-> tm, cases |-> SetToSeq({cases[n] : n \in sel})])
=============================================================================
