---------------------------- MODULE MC_External ----------------------------
(***************************************************************************)
(* Constants for ISExternal (three data, two of them sharing a hash prefix *)
(* when Collide) and the history-recording variant of the specification    *)
(* that is used with `tlc -simulate` to produce histories for the replay   *)
(* into real sessions: HSpec takes exactly the steps of Spec and appends   *)
(* every step with its expected post-state to `hist`.                      *)
(***************************************************************************)
EXTENDS ISExternal, Json, IOUtils, SequencesExt
CONSTANTS Collide
PrefixDef == [d \in Data |-> IF Collide /\ d = "d2" THEN "d1" ELSE d]

\* the flag sets used in simulated histories (a menu, so that random walks are not dominated by sessions)
SimFlagSets == {{}, {"create"}, {"fix"}, {"trim"}, {"create", "fix"}, {"fix", "trim"}, Cats}
VARIABLE hist
Post == [store |-> store', arg |-> arg', exists |-> exists', data |-> data']
HNext ==
  /\ steps < MaxSteps /\ steps' = steps + 1
  /\ \/ \E f \in Files, d \in Data :
          \/ Edit(f, d) /\ hist' = Append(hist, [a |-> "edit", f |-> f, d |-> d, post |-> Post])
          \/ Add(f, d) /\ hist' = Append(hist, [a |-> "add", f |-> f, d |-> d, post |-> Post])
     \/ \E f \in Files : Remove(f) /\ hist' = Append(hist, [a |-> "remove", f |-> f, post |-> Post])
     \/ \E F \in SimFlagSets, review \in BOOLEAN, yes \in {{}, Cats, {"fix"}} :
           /\ (review \/ yes = {}) /\ (review => F \in {{}, {"trim"}, {"create"}}) /\ Session(F, review, yes)
           /\ hist' = Append(hist, [a |-> "session", F |-> SetToSeq(F), review |-> review, yes |-> SetToSeq(yes),
                                    pruned |-> SessionResult(F, review, yes).afterPrune, post |-> Post])
HSpec == Init /\ hist = <<>> /\ [][HNext]_<<vars, hist>>
\* the exhaustive runs do not record histories
MSpec == Init /\ hist = <<>> /\ [][Next /\ UNCHANGED hist]_<<vars, hist>>
\* one JSON file per simulated behaviour (run with -workers 1; register 1 counts the behaviours)
EmitHist == steps = MaxSteps =>
               /\ TLCSet(1, TLCGet(1) + 1)
               /\ JsonSerialize(IOEnv.OUT_DIR \o "/hist_" \o ToString(TLCGet(1)) \o ".json",
                                [data0 |-> hist[1].post.data, hist |-> hist])
ASSUME TLCSet(1, 0)
============================================================================
