----------------------------- MODULE ISExternal -----------------------------
(***************************************************************************)
(* External storage over histories of runs (C13; _external.py,             *)
(* _find_external.py, pytest_plugin.py:179-197, 498-532).                  *)
(*                                                                         *)
(* Every test file f outsources one datum data[f]:                         *)
(*      assert outsource(<data[f]>) == snapshot(<arg[f]>)                  *)
(* arg[f] = "none" is the empty snapshot(), otherwise the datum whose hash      *)
(* prefix the external("<prefix>*") in the source names.  The storage      *)
(* holds, per datum, nothing, an unreferenced "new" file (<hash>-new) or   *)
(* a persisted "kept" file (<hash>).  Prefix[d] is the class of data that  *)
(* share the first hash-length digits (collisions when the configured      *)
(* hash-length is short).                                                  *)
(* History actions: edit the datum of a test, add / remove a test file,    *)
(* run a session with flags F (optionally in review mode with answers).    *)
(***************************************************************************)
EXTENDS Naturals, Sequences, FiniteSets, TLC

CONSTANTS Data, Files, Prefix, MaxSteps,
          ReviewTrims      \* TRUE = as coded on the pinned tree: review mode removes unused externals (finding F6)

Cats == {"create", "fix", "trim", "update"}
VARIABLES store,   \* [Data -> {"absent", "new", "kept"}]
          exists,  \* [Files -> BOOLEAN]
          data,    \* [Files -> Data]
          arg,     \* [Files -> {"none"} \cup Data]
          steps,
          last     \* what the last step was: [kind, trim, part] (for the action properties)
vars == <<store, exists, data, arg, steps, last>>

Init == /\ store = [d \in Data |-> "absent"] /\ exists = [f \in Files |-> FALSE]
        /\ data \in [Files -> Data] /\ arg = [f \in Files |-> "none"]
        /\ steps = 0 /\ last = [kind |-> "init", trim |-> FALSE, part |-> {}]

\* glob "<prefix>*<suffix>" over the stored files
Matches(st, r) == {d \in Data : st[d] # "absent" /\ Prefix[d] = Prefix[r]}
\* storage.read / external()._load_value: exactly one match or an error
Lookup(st, r) == IF Cardinality(Matches(st, r)) = 1 THEN CHOOSE d \in Matches(st, r) : TRUE ELSE "HashError"

NoSession == [kind |-> "edit", trim |-> FALSE, part |-> {}]
Edit(f, d) == /\ exists[f] /\ data[f] # d /\ data' = [data EXCEPT ![f] = d] /\ last' = NoSession
              /\ UNCHANGED <<store, exists, arg>>
Add(f, d) == /\ ~exists[f] /\ exists' = [exists EXCEPT ![f] = TRUE] /\ data' = [data EXCEPT ![f] = d]
             /\ arg' = [arg EXCEPT ![f] = "none"] /\ last' = NoSession /\ UNCHANGED store
Remove(f) == /\ exists[f] /\ exists' = [exists EXCEPT ![f] = FALSE] /\ last' = NoSession
             /\ UNCHANGED <<store, data, arg>>

(* one session with category flags F; review = review mode, yes = categories answered y *)
SessionResult(F, review, yes) ==
  LET part == {f \in Files : exists[f]}
      s1 == [d \in Data |-> IF store[d] = "new" THEN "absent" ELSE store[d]]                        \* prune at start
      s2 == [d \in Data |-> IF s1[d] # "kept" /\ \E f \in part : data[f] = d THEN "new" ELSE s1[d]]  \* outsource
      \* the comparison external(h1) == external(h2) only compares the common hash prefix
      pending(f) == IF arg[f] = "none" THEN "create"
                    ELSE IF Prefix[arg[f]] # Prefix[data[f]] THEN "fix" ELSE "none"
      approved == IF review THEN F \cup yes ELSE F
      changed == {f \in part : pending(f) \in approved}
      narg == [f \in Files |-> IF f \in changed THEN data[f] ELSE arg[f]]
      used == {narg[f] : f \in changed}
      \* persist: a unique match that is new becomes kept; ambiguous or missing -> silently nothing
      s3 == [d \in Data |-> IF s2[d] = "new" /\ \E r \in used : Matches(s2, r) = {d} THEN "kept" ELSE s2[d]]
      referenced == UNION {Matches(s3, narg[f]) : f \in {g \in part : narg[g] # "none"}}
      trimOK == "trim" \in F \/ (ReviewTrims /\ review)
      s4 == [d \in Data |-> IF trimOK /\ s3[d] # "absent" /\ d \notin referenced THEN "absent" ELSE s3[d]]
  IN [store |-> s4, arg |-> narg, part |-> part, trim |-> "trim" \in approved, afterPrune |-> s1]
Session(F, review, yes) ==
  LET r == SessionResult(F, review, yes) IN
  /\ store' = r.store /\ arg' = r.arg
  /\ last' = [kind |-> "session", trim |-> r.trim, part |-> r.part]
  /\ UNCHANGED <<exists, data>>

Next == /\ steps < MaxSteps /\ steps' = steps + 1
        /\ \/ \E f \in Files, d \in Data : Edit(f, d) \/ Add(f, d)
           \/ \E f \in Files : Remove(f)
           \/ \E F \in SUBSET Cats, review \in BOOLEAN, yes \in {{}, Cats, {"fix"}} :
                 (review \/ yes = {}) /\ Session(F, review, yes)
Spec == Init /\ [][Next]_vars

(* ---------------- C13 ---------------- *)
\* a persisted file appears only when a reference to it is written into a test file (by that step)
PersistOnlyWithReference ==
  [][\A d \in Data : (store'[d] = "kept" /\ store[d] # "kept")
        => \E f \in Files : exists'[f] /\ arg'[f] # "none" /\ arg'[f] # arg[f] /\ Prefix[arg'[f]] = Prefix[d]]_vars
\* a persisted file is removed only by an approved trim and only if no test file that took part references it
RemoveOnlyByApprovedTrim ==
  [][\A d \in Data : (store[d] = "kept" /\ store'[d] = "absent")
        => (last'.kind = "session" /\ last'.trim
            /\ \A f \in last'.part : arg'[f] = "none" \/ Prefix[arg'[f]] # Prefix[d])]_vars
\* an outsourced but unreferenced file never survives the start of the next session: whatever is "new" after a
\* session belongs to a datum that this very session outsourced
NewNeverSurvivesStart ==
  [][last'.kind = "session" => \A d \in Data : store'[d] = "new" => \E f \in last'.part : data[f] = d]_vars
\* edits of the tests never touch the storage
OnlySessionsTouchStorage == [][last'.kind # "session" => store' = store]_vars
\* a reference that the tool wrote resolves to a persisted file with that prefix (it may be ambiguous)
WrittenReferenceResolves ==
  [][\A f \in Files : (exists'[f] /\ arg'[f] # "none" /\ arg'[f] # arg[f])
        => \E d \in Data : store'[d] = "kept" /\ Prefix[d] = Prefix[arg'[f]]]_vars
\* a missing or ambiguous prefix is an error, never other data
LookupIsExact == \A r \in Data : LET l == Lookup(store, r) IN
                    l # "HashError" => (store[l] # "absent" /\ Prefix[l] = Prefix[r] /\ Cardinality(Matches(store, r)) = 1)
=============================================================================
