------------------------------ MODULE ISAssign ------------------------------
(***************************************************************************)
(* Structural assignment of a newly observed value to the term inside a    *)
(* snapshot(...) call by `x == snapshot(<term>)` (transition T5 of         *)
(* DESIGN.md; src/inline_snapshot/_adapter/*.py).                          *)
(*                                                                         *)
(*   Assign(tm, v, A) = [term, cats]                                       *)
(* term = the argument after applying the changes whose category is in A,  *)
(* cats = the categories of all changes (pending categories).              *)
(*                                                                         *)
(* Values  I(n) | L(<<v>>) | T(<<v>>) | D(<<k>>, <<v>>) | C(c, <<v>>)       *)
(* Terms   Lit(n, canon)   atom written canonically or by hand (0+n)       *)
(*         IsT(n)          Is(expr), current value n       - user's part   *)
(*         FS(n)           f-string, current value n       - user's part   *)
(*         HT(v)           hand-written expression whose value is the      *)
(*                         container v (not a display)                     *)
(*         SL(v)           a display with a star-expression, value v       *)
(*         SN(<<t>>)       a nested snapshot(t) / snapshot(): managed on  *)
(*                         its own as an independent call site            *)
(*         LT / TT(<<t>>)  list / tuple display                            *)
(*         DT(<<k>>, <<t>>) dict display                                   *)
(*         CT(c, <<t>>, <<name>>, <<t>>)  constructor call: positional     *)
(*                         arguments, keyword names, keyword arguments     *)
(***************************************************************************)
EXTENDS ISAlign, TLC

CONSTANTS Fields,    \* Fields[c] = sequence of [hasdef, def]: the init fields of class c (name = position)
          InsertByRemaining,  \* design as coded before fix F31 (TRUE): MC_Assign.C09 fails for calls
          DropUserDefault     \* design as coded before fix F33 (TRUE): MC_Assign.C10 fails for calls
\* a class whose code is written with POSITIONAL arguments only and never omits a default (collections.defaultdict:
\* defaultdict(factory, {items})) - the last class, if the model has three
PosCls == 3
IsPos(c) == c = PosCls /\ PosCls \in DOMAIN Fields

I(n) == [t |-> "i", v |-> n]
L(e) == [t |-> "l", e |-> e]
T(e) == [t |-> "t", e |-> e]
D(k, e) == [t |-> "d", k |-> k, e |-> e]
C(c, f) == [t |-> "c", c |-> c, f |-> f]

Lit(n, c) == [t |-> "lit", v |-> n, canon |-> c]
IsT(n) == [t |-> "is", v |-> n]
FS(n) == [t |-> "fs", v |-> n]
HT(v) == [t |-> "ht", val |-> v]
SL(v) == [t |-> "sl", val |-> v]
SN(e) == [t |-> "sn", e |-> e]      \* a nested snapshot(...) call: e = <<term>> or <<>> (empty); an own call site
LT(e) == [t |-> "lt", e |-> e]
TT(e) == [t |-> "tt", e |-> e]
DT(k, e) == [t |-> "dt", k |-> k, e |-> e]
CT(c, p, kn, ke) == [t |-> "ct", c |-> c, p |-> p, kn |-> kn, ke |-> ke]

Idx(ks, k) == CHOOSE j \in DOMAIN ks : ks[j] = k
Has(ks, k) == \E j \in DOMAIN ks : ks[j] = k
RECURSIVE CatAll(_)
CatAll(ss) == IF ss = <<>> THEN <<>> ELSE Head(ss) \o CatAll(Tail(ss))

(* the value a term evaluates to *)
RECURSIVE Eval(_)
Eval(tm) ==
  CASE tm.t \in {"lit", "is", "fs"} -> I(tm.v)
    [] tm.t = "sn" -> IF tm.e = <<>> THEN I(99) ELSE Eval(tm.e[1])       \* 99: "no value yet", equal to nothing
    [] tm.t \in {"ht", "sl"} -> tm.val
    [] tm.t = "lt" -> L([j \in DOMAIN tm.e |-> Eval(tm.e[j])])
    [] tm.t = "tt" -> T([j \in DOMAIN tm.e |-> Eval(tm.e[j])])
    [] tm.t = "dt" -> D(tm.k, [j \in DOMAIN tm.e |-> Eval(tm.e[j])])
    [] tm.t = "ct" ->
         \* positional arguments fill the fields in order, keywords by position-name, the rest are defaults
         C(tm.c, [j \in DOMAIN Fields[tm.c] |->
                     IF j <= Len(tm.p) THEN Eval(tm.p[j])
                     ELSE IF Has(tm.kn, j) THEN Eval(tm.ke[Idx(tm.kn, j)])
                     ELSE I(Fields[tm.c][j].def)])
(* the code generated for a value *)
IsDefault(c, j, v) == Fields[c][j].hasdef /\ v = I(Fields[c][j].def)
RECURSIVE Canon(_)
Canon(v) ==
  CASE v.t = "i" -> Lit(v.v, TRUE)
    [] v.t = "l" -> LT([j \in DOMAIN v.e |-> Canon(v.e[j])])
    [] v.t = "t" -> TT([j \in DOMAIN v.e |-> Canon(v.e[j])])
    [] v.t = "d" -> DT(v.k, [j \in DOMAIN v.e |-> Canon(v.e[j])])
    [] v.t = "c" /\ IsPos(v.c) -> CT(v.c, [j \in DOMAIN v.f |-> Canon(v.f[j])], <<>>, <<>>)
    [] v.t = "c" -> LET nd == SelectSeq([j \in DOMAIN v.f |-> j], LAMBDA j : ~IsDefault(v.c, j, v.f[j]))
                    IN CT(v.c, <<>>, nd, [q \in DOMAIN nd |-> Canon(v.f[nd[q]])])
\* a call term is well formed: no field given twice, every field without default given
WellFormedCall(tm) ==
  /\ Len(tm.p) <= Len(Fields[tm.c])
  /\ \A a, b \in DOMAIN tm.kn : a # b => tm.kn[a] # tm.kn[b]
  /\ \A a \in DOMAIN tm.kn : tm.kn[a] \in DOMAIN Fields[tm.c] /\ tm.kn[a] > Len(tm.p)
  /\ \A j \in DOMAIN Fields[tm.c] : ~Fields[tm.c][j].hasdef => (j <= Len(tm.p) \/ Has(tm.kn, j))

\* Python's == on values: dicts compare without regard to the order of their entries
RECURSIVE VEq(_, _)
VEq(a, b) ==
  IF a.t # b.t THEN FALSE
  ELSE CASE a.t = "i" -> a.v = b.v
         [] a.t \in {"l", "t"} -> Len(a.e) = Len(b.e) /\ \A j \in DOMAIN a.e : VEq(a.e[j], b.e[j])
         [] a.t = "d" -> /\ Len(a.k) = Len(b.k)
                         /\ \A j \in DOMAIN a.k : Has(b.k, a.k[j]) /\ VEq(a.e[j], b.e[Idx(b.k, a.k[j])])
         \* (a defaultdict compares like a dict: only its items, not the default_factory)
         [] a.t = "c" /\ IsPos(a.c) -> a.c = b.c /\ VEq(a.f[2], b.f[2])
         [] a.t = "c" -> a.c = b.c /\ \A j \in DOMAIN a.f : VEq(a.f[j], b.f[j])
EqTV(tm, v) == VEq(Eval(tm), v)   \* old element (a term) == new element (a value), as the alignment compares them

RECURSIVE Assign(_, _, _)
RECURSIVE Walk(_, _, _, _, _)
\* whole-node rule of the value adapter for a managed node
Leaf(tm, v, A) ==
  IF VEq(Eval(tm), v) THEN
     (IF tm.t = "lit" /\ tm.canon THEN [term |-> tm, cats |-> {}]
      ELSE IF tm = Canon(v) THEN [term |-> tm, cats |-> {}]
      ELSE [term |-> IF "update" \in A THEN Canon(v) ELSE tm, cats |-> {"update"}])
  ELSE [term |-> IF "fix" \in A THEN Canon(v) ELSE tm, cats |-> {"fix"}]

Assign(tm, v, A) ==
  CASE tm.t \in {"is", "sn"} -> [term |-> tm, cats |-> {}]
    [] tm.t = "fs" -> IF v.t = "i" THEN [term |-> tm, cats |-> {}] ELSE Leaf(tm, v, A)
    [] tm.t \in {"lit", "ht"} -> Leaf(tm, v, A)
    [] tm.t = "sl" -> IF v.t = tm.val.t THEN [term |-> tm, cats |-> {}] ELSE Leaf(tm, v, A)
    [] tm.t \in {"lt", "tt"} ->
         IF v.t # (IF tm.t = "lt" THEN "l" ELSE "t") THEN Leaf(tm, v, A)
         ELSE LET script == Script(tm.e, v.e, EqTV)
                  r == Walk(script, 1, tm.e, v.e, A)
              IN [term |-> [t |-> tm.t, e |-> r.e], cats |-> r.cats]
    [] tm.t = "dt" ->
         IF v.t # "d" THEN Leaf(tm, v, A)
         ELSE
           LET nold == Len(tm.k)
               matchedBefore(j) == Cardinality({i \in 1..(j-1) : Has(tm.k, v.k[i])})
               isNewKey(j) == ~Has(tm.k, v.k[j])
               knownAfter(j) == \E i \in (j+1)..Len(v.k) : Has(tm.k, v.k[i])
               posOf(j) == IF knownAfter(j) THEN matchedBefore(j) ELSE nold
               insAt(p) == SelectSeq([j \in DOMAIN v.k |-> j], LAMBDA j : isNewKey(j) /\ posOf(j) = p)
               sub(i) == Assign(tm.e[i], v.e[Idx(v.k, tm.k[i])], A)
               survives(i) == Has(v.k, tm.k[i])
               anyDel == \E i \in 1..nold : ~survives(i)
               anyIns == \E j \in DOMAIN v.k : isNewKey(j)
               piece[p \in 0..nold] ==
                  LET ins == IF "fix" \in A THEN [q \in DOMAIN insAt(p) |-> <<v.k[insAt(p)[q]], Canon(v.e[insAt(p)[q]])>>] ELSE <<>>
                      own == IF p = nold THEN <<>>
                             ELSE IF survives(p+1) THEN <<<<tm.k[p+1], sub(p+1).term>>>>
                             ELSE IF "fix" \in A THEN <<>> ELSE <<<<tm.k[p+1], tm.e[p+1]>>>>
                  IN ins \o own
               ents == CatAll([p \in 1..(nold + 1) |-> piece[p - 1]])
               cats == (IF anyDel \/ anyIns THEN {"fix"} ELSE {}) \cup UNION {sub(i).cats : i \in {i \in 1..nold : survives(i)}}
           IN [term |-> DT([q \in DOMAIN ents |-> ents[q][1]], [q \in DOMAIN ents |-> ents[q][2]]), cats |-> cats]
    [] tm.t = "ct" /\ IsPos(tm.c) /\ v.t = "c" /\ v.c = tm.c ->
         \* positional arguments are assigned one by one; missing ones are inserted, surplus ones deleted (fix)
         LET np == Len(tm.p)
             nf == Len(v.f)
             sub(j) == Assign(tm.p[j], v.f[j], A)
             kept == [j \in 1..(IF np < nf THEN np ELSE nf) |-> sub(j).term]
             more == IF np < nf THEN (IF "fix" \in A THEN [j \in 1..(nf - np) |-> Canon(v.f[np + j])] ELSE <<>>)
                     ELSE (IF "fix" \in A THEN <<>> ELSE SubSeq(tm.p, nf + 1, np))
         IN [term |-> CT(tm.c, kept \o more, <<>>, <<>>),
             cats |-> (IF np # nf THEN {"fix"} ELSE {}) \cup UNION {sub(j).cats : j \in DOMAIN kept}]
    [] tm.t = "ct" ->
         IF v.t # "c" \/ v.c # tm.c THEN Leaf(tm, v, A)
         ELSE
           LET old == Eval(tm)
               nf == Len(Fields[tm.c])
               \* positional arguments have no counterpart in the keyword-only view of the value: deleted by fix
               delPos == Len(tm.p) > 0
               \* keyword q survives: its value is not the default - or the user controls it (Is(...): the value is the
               \* default only at the moment; since fix F33, before it was removed by update)
               keepKw(q) == ~IsDefault(tm.c, tm.kn[q], v.f[tm.kn[q]]) \/ (~DropUserDefault /\ tm.ke[q].t = "is")
               delCat(q) == IF VEq(old.f[tm.kn[q]], v.f[tm.kn[q]]) THEN "update" ELSE "fix"
               newNames == SelectSeq([j \in 1..nf |-> j], LAMBDA j : ~IsDefault(tm.c, j, v.f[j]))  \* in field order
               isIns(j) == ~Has(tm.kn, j)
               sub(q) == Assign(tm.ke[q], v.f[tm.kn[q]], A)
               \* keywords after the edit, in the order: surviving old keywords (old order); inserted ones are placed
               \* in front of the next known keyword in field order, or at the end
               np == Len(tm.p)
               nOld == np + Len(tm.kn)
               keptKw(q) == keepKw(q) \/ ~(delCat(q) \in A)
               kwEnt(q) == <<tm.kn[q], IF keepKw(q) THEN sub(q).term ELSE tm.ke[q]>>
               \* an inserted keyword goes in front of the next keyword (in field order) that the call already has and
               \* keeps a non-default value - at the index that keyword has among the OLD arguments - or to the end
               \* (since fix F31; as coded before: at the index "number of preceding known non-default keywords",
               \* which is an index into the arguments that REMAIN after the update-deletions, so the result
               \* depended on whether update was approved before fix)
               known(j) == Has(tm.kn, j)
               nextKnown(j) == {i \in (j + 1)..nf : known(i) /\ ~IsDefault(tm.c, i, v.f[i])}
               posNew(j) == IF nextKnown(j) = {} THEN nOld
                            ELSE np + Idx(tm.kn, CHOOSE i \in nextKnown(j) : \A i2 \in nextKnown(j) : i <= i2) - 1
               posOld(j) == Cardinality({i \in 1..(j - 1) : ~IsDefault(tm.c, i, v.f[i]) /\ known(i)})
               posOf(j) == IF InsertByRemaining THEN (IF posOld(j) > nOld THEN nOld ELSE posOld(j)) ELSE posNew(j)
               insAt(ix) == IF "fix" \in A
                            THEN SelectSeq(newNames, LAMBDA j : isIns(j) /\ posOf(j) = ix)
                            ELSE <<>>
               piece[ix \in 0..nOld] ==
                  [z \in DOMAIN insAt(ix) |-> <<insAt(ix)[z], Canon(v.f[insAt(ix)[z]])>>]
                  \o (IF ix >= np /\ ix < nOld /\ keptKw(ix - np + 1) THEN <<kwEnt(ix - np + 1)>> ELSE <<>>)
               ents == CatAll([ix \in 1..(nOld + 1) |-> piece[ix - 1]])
               cats == (IF delPos THEN {"fix"} ELSE {})
                       \cup {delCat(q) : q \in {q \in DOMAIN tm.kn : ~keepKw(q)}}
                       \cup (IF \E j \in DOMAIN newNames : isIns(newNames[j]) THEN {"fix"} ELSE {})
                       \cup UNION {sub(q).cats : q \in {q \in DOMAIN tm.kn : keepKw(q)}}
           IN [term |-> CT(tm.c, IF delPos /\ "fix" \in A THEN <<>> ELSE tm.p,
                           [q \in DOMAIN ents |-> ents[q][1]], [q \in DOMAIN ents |-> ents[q][2]]),
               cats |-> cats]

\* walk the edit script from position p (old/new indices are derived from the script prefix)
Walk(script, p, oe, ne, A) ==
  IF p > Len(script) THEN [e |-> <<>>, cats |-> {}]
  ELSE LET c == script[p]
           oi == OldBefore(script, p) + 1
           ni == NewBefore(script, p) + 1
           rest == Walk(script, p + 1, oe, ne, A)
       IN IF c \in {"m", "x"} THEN
             LET sub == Assign(oe[oi], ne[ni], A)
             IN [e |-> <<sub.term>> \o rest.e, cats |-> sub.cats \cup rest.cats]
          ELSE IF c = "i" THEN
             [e |-> (IF "fix" \in A THEN <<Canon(ne[ni])>> ELSE <<>>) \o rest.e, cats |-> {"fix"} \cup rest.cats]
          ELSE
             [e |-> (IF "fix" \in A THEN <<>> ELSE <<oe[oi]>>) \o rest.e, cats |-> {"fix"} \cup rest.cats]

(***************************************************************************)
(* What the properties say about Assign                                    *)
(***************************************************************************)
\* equal except at the parts the user controls
RECURSIVE ManagedEq(_, _)
ManagedEq(tm, v) ==
  CASE tm.t \in {"is", "fs", "sn"} -> TRUE
    [] tm.t = "sl" -> TRUE
    [] tm.t \in {"lit", "ht"} -> VEq(Eval(tm), v)
    [] tm.t = "lt" -> v.t = "l" /\ Len(v.e) = Len(tm.e) /\ \A j \in DOMAIN tm.e : ManagedEq(tm.e[j], v.e[j])
    [] tm.t = "tt" -> v.t = "t" /\ Len(v.e) = Len(tm.e) /\ \A j \in DOMAIN tm.e : ManagedEq(tm.e[j], v.e[j])
    [] tm.t = "dt" -> v.t = "d" /\ Len(v.k) = Len(tm.k)
                      /\ \A j \in DOMAIN tm.k : Has(v.k, tm.k[j]) /\ ManagedEq(tm.e[j], v.e[Idx(v.k, tm.k[j])])
    [] tm.t = "ct" -> /\ v.t = "c" /\ v.c = tm.c /\ WellFormedCall(tm)
                      /\ \A j \in DOMAIN Fields[tm.c] :
                           IF j <= Len(tm.p) THEN ManagedEq(tm.p[j], v.f[j])
                           ELSE IF Has(tm.kn, j) THEN ManagedEq(tm.ke[Idx(tm.kn, j)], v.f[j])
                           ELSE v.f[j] = I(Fields[tm.c][j].def)
\* the user-controlled sub-terms in textual order
RECURSIVE UserParts(_)
UserParts(tm) ==
  CASE tm.t \in {"is", "fs", "sl", "sn"} -> <<tm>>
    [] tm.t \in {"lit", "ht"} -> <<>>
    [] tm.t \in {"lt", "tt", "dt"} -> CatAll([j \in DOMAIN tm.e |-> UserParts(tm.e[j])])
    [] tm.t = "ct" -> CatAll([j \in DOMAIN tm.p |-> UserParts(tm.p[j])]) \o CatAll([j \in DOMAIN tm.ke |-> UserParts(tm.ke[j])])
\* s is a subsequence of t
IsSubSeq(s, t) ==
  LET F[i \in 0..Len(s), j \in 0..Len(t)] ==
        IF i = 0 THEN TRUE ELSE IF j = 0 THEN FALSE
        ELSE (s[i] = t[j] /\ F[i-1, j-1]) \/ F[i, j-1]
  IN F[Len(s), Len(t)]
\* the term has a part that the user controls and that does not agree with v
HasUser(tm) == UserParts(tm) # <<>>
=============================================================================
