------------------------------ MODULE ISConfig ------------------------------
(***************************************************************************)
(* Resolution of the flags of a session and the approval gate              *)
(* (transitions T1, T2, T8 of DESIGN.md; pytest_plugin.py:118-197,         *)
(* 209-219, 349-494; _config.py).                                          *)
(*                                                                         *)
(* A configuration cfg is a record                                         *)
(*   cli      : [on, f] flags given with --inline-snapshot= (on = given);   *)
(*              a shortcut option like --fix is the same as its flags      *)
(*   env      : [on, f] the flags in INLINE_SNAPSHOT_DEFAULT_FLAGS         *)
(*   pp       : [on, f] default-flags of pyproject.toml                    *)
(*   pptui    : [on, f] default-flags-tui                                  *)
(*   tty      : the console is a terminal                                  *)
(*   ci       : a CI environment variable is set;  pycharm: PYCHARM_HOSTED *)
(*   xdist    : "no" | "n0" (-n 0) | "n2" (-n 2)                           *)
(*   skipupd  : skip-snapshot-updates-for-now                              *)
(*   yes      : categories answered `y` when review asks                   *)
(* Under xdist the controller AND every worker are processes that run      *)
(* Configure / Finish on their own state; `worker` tells which one.        *)
(***************************************************************************)
EXTENDS Naturals, FiniteSets, TLC

Cats == {"create", "fix", "trim", "update"}
Modes == {"disable", "review", "report", "short-report"}
Known == Cats \cup Modes

\* built-in defaults of the plugin under pytest (is_pytest_compatible)
BuiltinDefault == {"report"}
BuiltinTui == {"create", "review"}

Defaults(cfg) == IF cfg.env.on THEN cfg.env.f
                 ELSE IF cfg.tty THEN (IF cfg.pptui.on THEN cfg.pptui.f ELSE BuiltinTui)
                 ELSE (IF cfg.pp.on THEN cfg.pp.f ELSE BuiltinDefault)
Flags(cfg) == IF cfg.cli.on THEN cfg.cli.f ELSE Defaults(cfg)

\* does this process know that xdist is running?  (RepairedXdist: a worker knows; as coded it does not - F16)
XdistSeen(cfg, worker, RepairedXdist) == cfg.xdist = "n2" /\ (~worker \/ RepairedXdist)
CiSeen(cfg) == cfg.ci /\ ~cfg.pycharm

UsageError(cfg, worker, RX) ==
  LET f == Flags(cfg) IN
  \/ (cfg.cli.on /\ XdistSeen(cfg, worker, RX) /\ cfg.cli.f \ {"disable"} # {})
  \/ f \ Known # {}
  \/ ("disable" \in f /\ f # {"disable"})

Active(cfg, worker, RX) ==
  IF XdistSeen(cfg, worker, RX) \/ CiSeen(cfg) THEN FALSE
  ELSE IF "review" \in Flags(cfg) THEN TRUE
  ELSE "disable" \notin Flags(cfg)
\* the flags that influence the comparisons
U(cfg, worker, RX) ==
  IF UsageError(cfg, worker, RX) \/ ~Active(cfg, worker, RX) THEN {}      \* (after a usage error no test runs)
  ELSE IF "review" \in Flags(cfg) THEN Cats ELSE Flags(cfg) \cap Cats

(* the approval gate at session end, for the categories `pending` that have a non-empty diff *)
Shown(cfg, c) == {"review", "report", c} \cap Flags(cfg) # {}
                 /\ ~(c = "update" /\ cfg.skipupd /\ "update" \notin Flags(cfg))
Applied(cfg, worker, RX, pending) ==
  IF UsageError(cfg, worker, RX) \/ ~Active(cfg, worker, RX) \/ "short-report" \in Flags(cfg) THEN {}
  ELSE {c \in pending : Shown(cfg, c) /\ (c \in Flags(cfg) \/ ("review" \in Flags(cfg) /\ c \in cfg.yes))}
\* categories for which review asks a question (in the order create, fix, trim, update)
Asked(cfg, worker, RX, pending) ==
  IF UsageError(cfg, worker, RX) \/ ~Active(cfg, worker, RX) \/ "short-report" \in Flags(cfg) THEN {}
  ELSE {c \in pending : Shown(cfg, c) /\ c \notin Flags(cfg) /\ "review" \in Flags(cfg)}

\* unused persisted externals are removed at the end of the session (pytest_plugin.py:526-532)
TrimsExternals(cfg, worker, RX) ==
  /\ ~UsageError(cfg, worker, RX) /\ Active(cfg, worker, RX) /\ "short-report" \notin Flags(cfg)
  /\ "trim" \in Flags(cfg)

(***************************************************************************)
(* What C04 promises, stated without reference to the mechanism: the       *)
(* categories the user approved for this session.                          *)
(***************************************************************************)
Effective(cfg) == Flags(cfg)      \* CLI > environment variable > pyproject (tui when on a terminal) > built-in
UserApproved(cfg) ==
  IF Effective(cfg) \ Known # {} \/ ("disable" \in Effective(cfg))                 \* error or disabled
     \/ (cfg.cli.on /\ cfg.xdist = "n2" /\ cfg.cli.f \ {"disable"} # {})           \* refused combination
     \/ cfg.xdist = "n2" \/ CiSeen(cfg) \/ "short-report" \in Effective(cfg)
  THEN {}
  ELSE (Effective(cfg) \cap Cats)
       \cup (IF "review" \in Effective(cfg)
             THEN cfg.yes \ (IF cfg.skipupd /\ "update" \notin Effective(cfg) THEN {"update"} ELSE {})   \* hidden: never asked
             ELSE {})
=============================================================================
