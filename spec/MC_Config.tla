----------------------------- MODULE MC_Config -----------------------------
(***************************************************************************)
(* The configuration space of a session (C04): every combination of flag   *)
(* sources, modes, environment and review answers; the gate implemented    *)
(* by the plugin (Applied) must equal what the user approved               *)
(* (UserApproved), in the controller and in every xdist worker.            *)
(***************************************************************************)
EXTENDS ISConfig, Json, IOUtils, SequencesExt, FiniteSetsExt

CONSTANTS RepairedXdist, Mode, Stride, Offset, Small

Off == [on |-> FALSE, f |-> {}]
On(S) == [on |-> TRUE, f |-> S]
CliSets == (SUBSET Cats) \cup {S \cup {m} : S \in SUBSET Cats, m \in {"review", "report", "short-report"}}
           \cup {{"disable"}, {"disable", "fix"}, {"bogus"}, {"fix", "bogus"}}
EnvSets == IF Small THEN {{"create", "fix"}, {"review"}}
           ELSE {{"create", "fix"}, {"report"}, {"review"}, {"trim", "update", "short-report"}, {"disable"}}
PpSets == IF Small THEN {{"fix"}, {"review", "update"}} ELSE {{"fix"}, {"create", "trim"}, {"short-report"}, {"review", "update"}}
TuiSets == IF Small THEN {{"fix", "update"}} ELSE {{"create", "review"}, {"fix", "update"}, {"report"}}
YesSets == IF Small THEN {{}, Cats, {"create", "trim"}} ELSE {{}, Cats, {"create", "trim"}, {"fix"}, {"update"}}

VARIABLES cli, rest, step, cid
vars == <<cli, rest, step, cid>>
CliSeq == SetToSeq({Off} \cup {On(S) : S \in CliSets})
Rest == [env : {Off} \cup {On(S) : S \in EnvSets}, pp : {Off} \cup {On(S) : S \in PpSets},
         pptui : {Off} \cup {On(S) : S \in TuiSets}, tty : BOOLEAN, ci : BOOLEAN, pycharm : BOOLEAN,
         xdist : {"no", "n0", "n2"}, skipupd : BOOLEAN, yes : YesSets]
Cfg(c, r) == [cli |-> c, env |-> r.env, pp |-> r.pp, pptui |-> r.pptui, tty |-> r.tty, ci |-> r.ci,
              pycharm |-> r.pycharm, xdist |-> r.xdist, skipupd |-> r.skipupd, yes |-> r.yes]
\* Init chooses the command line; the step chooses the rest (evaluated by the workers in parallel)
Init == /\ \E n \in 1..Len(CliSeq) : cli = CliSeq[n] /\ cid = n
        /\ rest = [tty |-> FALSE] /\ step = 0
Next == /\ step = 0 /\ step' = 1 /\ UNCHANGED <<cli, cid>>
        /\ IF Mode = "mc" THEN rest' \in Rest ELSE UNCHANGED rest
Spec == Init /\ [][Next]_vars
cfg == Cfg(cli, rest)

(* C04: exactly the approved categories apply; nothing else writes *)
C04exact == (step = 1 /\ Mode = "mc") => \A pending \in SUBSET Cats :
               /\ Applied(cfg, FALSE, RepairedXdist, pending) = UserApproved(cfg) \cap pending
               \* a worker process exists only if the controller did not stop with a usage error
               /\ ((cfg.xdist = "n2" /\ ~UsageError(cfg, FALSE, RepairedXdist)) => Applied(cfg, TRUE, RepairedXdist, pending) = {})
\* a persisted external is removed only by an approved trim (a category flag; review has no question for it)
C04external == (step = 1 /\ Mode = "mc") =>
                  /\ TrimsExternals(cfg, FALSE, RepairedXdist) => "trim" \in UserApproved(cfg)
                  /\ (cfg.xdist = "n2" /\ ~UsageError(cfg, FALSE, RepairedXdist)) => ~TrimsExternals(cfg, TRUE, RepairedXdist)
\* nothing is approved => nothing influences the comparisons either, unless review is active
C04quiet == (step = 1 /\ Mode = "mc" /\ UserApproved(cfg) = {} /\ "review" \notin Flags(cfg) /\ "short-report" \notin Flags(cfg))
                            => U(cfg, FALSE, RepairedXdist) = {}
\* review never applies a category that was answered `n`
C04review == (step = 1 /\ Mode = "mc") => \A pending \in SUBSET Cats :
               Applied(cfg, FALSE, RepairedXdist, pending) \subseteq (Flags(cfg) \cup cfg.yes)

CatNum(c) == CASE c = "create" -> 1 [] c = "fix" -> 2 [] c = "trim" -> 3 [] c = "update" -> 4
CatSeq(S) == SetToSortSeq({CatNum(c) : c \in S}, <)
FlagSeq(S) == SetToSeq(S)
Src(x) == [on |-> x.on, f |-> SetToSeq(x.f)]
\* emission is done per command line: all `rest` records of a stride sample
EmitAll == (Mode = "emit" /\ step = 1) =>
  LET rs == SetToSeq(Rest)
      sel == {n \in 1..Len(rs) : (n + cid) % Stride = Offset % Stride}
      one(r) == LET c == Cfg(cli, r) IN
                [cli |-> Src(c.cli), env |-> Src(c.env), pp |-> Src(c.pp), pptui |-> Src(c.pptui), tty |-> c.tty, ci |-> c.ci,
                 pycharm |-> c.pycharm, xdist |-> c.xdist, skipupd |-> c.skipupd, yes |-> CatSeq(c.yes),
                 error |-> UsageError(c, FALSE, RepairedXdist), active |-> Active(c, FALSE, RepairedXdist),
                 U |-> CatSeq(U(c, FALSE, RepairedXdist)),
                 applied |-> CatSeq(Applied(c, FALSE, RepairedXdist, Cats)),
                 asked |-> CatSeq(Asked(c, FALSE, RepairedXdist, Cats)),
                 worker_applied |-> CatSeq(IF c.xdist = "n2" /\ ~UsageError(c, FALSE, RepairedXdist)
                                           THEN Applied(c, TRUE, RepairedXdist, Cats) ELSE {}),
                 ext_removed |-> TrimsExternals(c, FALSE, RepairedXdist),
                 approved |-> CatSeq(UserApproved(c))]
  IN JsonSerialize(IOEnv.OUT_DIR \o "/cli_" \o ToString(cid) \o ".json", [cases |-> SetToSeq({one(rs[n]) : n \in sel})])
=============================================================================
