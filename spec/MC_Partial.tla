------------------------------ MODULE MC_Partial ------------------------------
(***************************************************************************)
(* Bounded instance of ISPartial.  Mode "mc": the invariants on every      *)
(* behaviour.  Mode "emit": every terminal state (sampled by Stride /      *)
(* Offset) is written as one JSON case (the compared values, what every    *)
(* test is answered, the pending category, the source after the session),  *)
(* which harness/partial_replay.py replays into the real code.             *)
(***************************************************************************)
EXTENDS ISPartial, Json, IOUtils

CONSTANTS Mode, Stride, Offset

B == Cardinality(Atoms) + 1
Digit(x) == IF x = Boom THEN B - 1 ELSE x
Enc(v) == LET F[k \in 0..K] == IF k = 0 THEN 0 ELSE F[k - 1] * B + Digit(v[k]) IN F[K]
BK == LET P[k \in 0..K] == IF k = 0 THEN 1 ELSE P[k - 1] * B IN P[K]
EncSeq(s) == LET G[j \in 0..Len(s)] == IF j = 0 THEN 0 ELSE G[j - 1] * (BK + 1) + Enc(s[j]) + 1 IN G[Len(s)]
Id == ((EncSeq(cmps) * BK + Enc(old)) * 2 + (IF fix THEN 1 ELSE 0)) * 2 + (IF seqlike THEN 1 ELSE 0)

Emit == (Mode = "emit" /\ pc = "done" /\ Id % Stride = Offset % Stride) =>
   JsonSerialize(IOEnv.OUT_DIR \o "/case_" \o ToString(Id) \o ".json",
                 [id |-> Id, seqlike |-> seqlike, old |-> old, cmps |-> cmps, fix |-> fix, res |-> res, inc |-> inc,
                  pending |-> changes # <<>>, completed |-> newv # <<>>, final |-> final, err |-> err,
                  attempts |-> Cardinality({c \in DOMAIN cmps : \A d \in 1..(c - 1) : \E k \in 1..K : cmps[d][k] = Boom})])
=============================================================================
