----------------------------- MODULE MC_StrLit -----------------------------
(***************************************************************************)
(* All strings up to length N over the character classes: the generated    *)
(* literal is well formed and lexes back to the value (C12), and emission  *)
(* of (value, literal) pairs for the binding to the implementation.        *)
(* The state is a prefix of length <= 2; the invariants quantify over all  *)
(* extensions, the dummy step lets the workers share the prefixes.         *)
(***************************************************************************)
EXTENDS ISStrLit, Json, IOUtils, SequencesExt

CONSTANTS N, Mode, Stride, Offset,
          Alphabet      \* the character classes of this run (all of them, or few classes with longer strings)
VARIABLES pre, step
vars == <<pre, step>>
StrA(n) == UNION {[1..m -> Alphabet] : m \in 0..n}
Init == pre \in StrA(2) /\ step = 0
Next == step = 0 /\ step' = 1 /\ UNCHANGED pre
Spec == Init /\ [][Next]_vars

Ext == IF Len(pre) < 2 THEN {pre} ELSE {pre \o t : t \in StrA(N - 2)}
RoundTrip == step = 1 => \A s \in Ext : LET l == Encode(s) IN WellFormed(l) /\ Lex(l.body) = s
\* the triple-quoted form is used exactly for values that span several lines
TripleIffMultiline == step = 1 => \A s \in Ext : Encode(s).triple <=> NeedsTriple(s)
\* finding F1 (as coded): a lone string statement is normalised as a docstring - the value changes
LoneChanges == step = 1 => \A s \in Ext : ReadBack(s, TRUE) = s

ClassNum(c) == CASE c = "sp" -> 0 [] c = "tab" -> 1 [] c = "nl" -> 2 [] c = "cr" -> 3 [] c = "sq" -> 4 [] c = "dq" -> 5
                 [] c = "bs" -> 6 [] c = "a" -> 7 [] c = "u" -> 8 [] c = "np" -> 9 [] c = "x" -> 10
SrcNum(c) == CASE c = "NL" -> 11 [] c = "n" -> 12 [] c = "r" -> 13 [] c = "t" -> 14 [] c = "X" -> 15 [] OTHER -> ClassNum(c)
PreId == LET F[k \in 0..Len(pre)] == IF k = 0 THEN Len(pre) ELSE F[k-1] * 12 + ClassNum(pre[k]) + 1 IN F[Len(pre)]
Emit == (Mode = "emit" /\ step = 1) =>
  LET es == SetToSeq(Ext)
      \* a stride sample, plus every string in which both kinds of triple quotes occur (the rare region where the
      \* extra quote is escaped)
      sel == {n \in 1..Len(es) : \/ (n + PreId) % Stride = Offset % Stride
                                  \/ (HasSub(es[n], Triple("sq")) /\ HasSub(es[n], Triple("dq")))}
      one(s) == LET l == Encode(s) IN
                [s |-> [j \in DOMAIN s |-> ClassNum(s[j])], triple |-> l.triple, q |-> ClassNum(l.q),
                 body |-> [j \in DOMAIN l.body |-> SrcNum(l.body[j])]]
  IN JsonSerialize(IOEnv.OUT_DIR \o "/pre_" \o ToString(PreId) \o ".json",
                   [cases |-> SetToSeq({one(es[n]) : n \in sel})])
=============================================================================
