\* emission of replay cases for the two-site space
SPECIFICATION Spec
CONSTANTS
  NAtoms = 2
  Keys = {1}
  SiteOps = {"eq", "le", "in", "dict"}
  ChildOps = {"deq"}
  WrongOps = {}
  ChgOK = FALSE
  HostileOK = FALSE
  NSites = 2
  NTests = 2
  MaxStmts = 2
  MaxRuns = 1
  MaxSrcLen = 1
  Mode = "emit"
  Stride = 1
  Offset = 0
  Fuel = 6
  AbortOK = FALSE
CHECK_DEADLOCK FALSE
INVARIANT Emit
INVARIANT EmitChain8
INVARIANT EmitChain9
