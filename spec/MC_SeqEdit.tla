------------------------------ MODULE MC_SeqEdit ------------------------------
(***************************************************************************)
(* Bounded check of ISSeqEdit: for every container kind, length <= MaxN,   *)
(* set of parenthesised elements, trailing comma and every edit of a       *)
(* producer the transcription of generic_sequence_update yields a result   *)
(* that is Correct.  Mode "emit": one JSON case per (source, edit) with    *)
(* the expected elements, replayed into the real apply_all by              *)
(* harness/seqedit_replay.py.                                              *)
(*                                                                         *)
(* Producers:  "script" - the sequence adapter: edits derived from         *)
(*                add_x(align(old, new)) for all old, new over Atoms       *)
(*             "free"   - dict adapter, dict sub-snapshots, `in`           *)
(*                collections, constructor calls: any deletions, at most   *)
(*                MaxIns insertions in front of a KEPT element or at the   *)
(*                end (the code never inserts in front of a deleted        *)
(*                element without also reaching a kept one or the end:     *)
(*                DictAdapter flushes its queue in front of a known key,   *)
(*                the rest goes to position len)                           *)
(*             "any"    - every edit, also unreachable ones (Limits shows  *)
(*                where the function would be wrong; expected to FAIL)     *)
(***************************************************************************)
EXTENDS ISSeqEdit, Json, IOUtils, SequencesExt, FiniteSetsExt

CONSTANTS MaxN, MaxIns, Atoms, Mode, Producer, Stride, Offset,
          KindSet     \* container kinds of this run

Kinds == KindSet
VARIABLES kind, n, parens, trailing, del, ins, step
vars == <<kind, n, parens, trailing, del, ins, step>>

InsSeqs == UNION {[1..m -> {1}] : m \in 0..MaxIns}        \* ids are assigned afterwards
\* number the inserted elements 1, 2, ... in textual order
Number(cnt, nn) == LET before[p \in 0..nn] == IF p = 0 THEN 0 ELSE before[p - 1] + cnt[p - 1]
                   IN [p \in 0..nn |-> [j \in 1..cnt[p] |-> before[p] + j]]
FreeEdits(nn) == UNION {{[del |-> d, ins |-> Number(c, nn)] :
                            c \in {c \in [0..nn -> 0..MaxIns] : \A p \in 0..(nn - 1) : c[p] > 0 => (p + 1) \notin d}}
                        : d \in SUBSET (1..nn)}
AnyEdits(nn) == {[del |-> d, ins |-> Number(c, nn)] : d \in SUBSET (1..nn), c \in [0..nn -> 0..MaxIns]}
SeqsUpTo(S, m) == UNION {[1..k -> S] : k \in 0..m}
ScriptEdits(nn) == {SeqEdit(o, w) : o \in [1..nn -> Atoms], w \in SeqsUpTo(Atoms, MaxN)}
Edits(nn) == CASE Producer = "script" -> ScriptEdits(nn)
               [] Producer = "free" -> FreeEdits(nn)
               [] OTHER -> AnyEdits(nn)

\* Init chooses the source, the first step the edit (so that all workers evaluate invariants)
Init == /\ kind \in (IF Producer = "script" THEN Kinds \cap {"list", "tuple"} ELSE Kinds) /\ n \in 0..MaxN
        /\ parens \in SUBSET (1..n) /\ trailing \in (IF n = 0 THEN {FALSE} ELSE BOOLEAN)
        \* (x) is no tuple: a tuple with one element has its comma
        /\ (kind = "tuple" /\ n = 1) => trailing
        /\ del = {} /\ ins = <<>> /\ step = 0
Pick == /\ step = 0 /\ step' = 1
        /\ \E e \in Edits(n) : del' = e.del /\ ins' = e.ins
        /\ UNCHANGED <<kind, n, parens, trailing>>
Next == Pick
Spec == Init /\ [][Next]_vars

Holds == step = 1 => Correct(kind, n, parens, trailing, del, ins)

B2N(b) == IF b THEN 1 ELSE 0
RECURSIVE SetSum(_)
SetSum(S) == IF S = {} THEN 0 ELSE LET x == CHOOSE x \in S : TRUE IN x + SetSum(S \ {x})
Pow2(i) == LET P[k \in 0..i] == IF k = 0 THEN 1 ELSE 2 * P[k - 1] IN P[i]
Code(S) == SetSum({Pow2(i) : i \in S})
InsCode == LET F[p \in 0..(n + 1)] == IF p = 0 THEN 0 ELSE F[p - 1] * (MaxN + 2) + Len(ins[p - 1]) IN F[n + 1]
KindNum == CASE kind = "list" -> 0 [] kind = "tuple" -> 1 [] kind = "dict" -> 2 [] kind = "call" -> 3
CaseId == ((((InsCode * 16 + Code(del)) * 16 + Code(parens)) * 2 + B2N(trailing)) * 4 + n) * 4 + KindNum
TokName(t) == IF t.t \in {"old", "new"} THEN t.t \o ToString(t.id) ELSE t.t
Emit == (Mode = "emit" /\ step = 1 /\ CaseId % Stride = Offset % Stride) =>
   LET toks == SourceToks(n, parens, trailing)
       out == Result(kind, toks, n, del, ins)
   IN JsonSerialize(IOEnv.OUT_DIR \o "/case_" \o ToString(CaseId) \o ".json",
        [id |-> CaseId, kind |-> kind, n |-> n, parens |-> SetToSortSeq(parens, <), trailing |-> trailing,
         del |-> SetToSortSeq(del, <), ins |-> [p \in 1..(n + 1) |-> ins[p - 1]],
         expected |-> [j \in DOMAIN Expected(n, parens, del, ins) |->
                          [q \in DOMAIN Expected(n, parens, del, ins)[j] |-> TokName(Expected(n, parens, del, ins)[j][q])]],
         out |-> [q \in DOMAIN out |-> TokName(out[q])],
         trailing_after |-> HasTrailing(out)])
=============================================================================
