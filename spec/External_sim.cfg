\* histories for the replay (tlc -simulate)
SPECIFICATION HSpec
CONSTANTS
  Data = {"d1", "d2", "d3"}
  Files = {"fa", "fb"}
  Prefix <- PrefixDef
  MaxSteps = 6
  ReviewTrims = FALSE
  Collide = FALSE
INVARIANT EmitHist
CHECK_DEADLOCK FALSE
