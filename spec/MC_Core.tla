------------------------------ MODULE MC_Core ------------------------------
(***************************************************************************)
(* Bounded model of whole sessions over ISCore: a program (tests over      *)
(* sites) is chosen in Init and re-executed by every session; a session    *)
(* approves an arbitrary set of categories.  Histories of sessions are     *)
(* behaviours.  The invariants are transcriptions of the property          *)
(* statements C05..C09, C14 (DESIGN.md, section 3.3).                      *)
(*                                                                         *)
(* Mode "mc"  : Init chooses (ops, srcs, prog); Next = a session.          *)
(* Mode "emit": Init chooses a group (ops, srcs); the invariant Emit       *)
(*              writes, for a stride-sample of programs, the expected      *)
(*              observables of the session for every approved set, as      *)
(*              JSON cases that the harness replays into the real code.    *)
(***************************************************************************)
EXTENDS ISDrivers, Json, IOUtils, SequencesExt, FiniteSetsExt

CONSTANTS NAtoms,      \* atoms 0..NAtoms-1
          Keys,        \* dict keys
          SiteOps,     \* operations a site may be declared with
          ChildOps,    \* operations of dict children ("deq","dle","dge"; "dget" = the child is only accessed)
          WrongOps,    \* operations used as a second, conflicting operation
          ChgOK,       \* programs may re-evaluate a call with a changed hand-written argument
          HostileOK,   \* programs may raise exceptions of their own and compare with values of incomparable types
          NSites, NTests, MaxStmts,
          MaxRuns,     \* sessions per behaviour (mode mc)
          MaxSrcLen,   \* entries of an "in"/dict source
          Mode, Stride, Offset, Fuel, AbortOK

Atoms == 0..(NAtoms - 1)
FK(x) == x.k
FV(x) == x.v
Lit0 == [k : {0}, v : Atoms, canon : BOOLEAN]
LitK == [k : Keys, v : Atoms, canon : BOOLEAN]
SrcsFor(o) == IF o \in ScalarOps \cup {"none"} THEN {None} \cup {Some(<<l>>) : l \in Lit0}
              ELSE IF o = "in" THEN {None} \cup {Some(e) : e \in {s \in SeqUpTo(Lit0, MaxSrcLen) : NoDupBy(s, FV)}}
              ELSE {None} \cup {Some(e) : e \in {s \in SeqUpTo(LitK, MaxSrcLen) : NoDupBy(s, FK)}}

KindOfStmtOp(o) == IF o \in {"deq", "dle", "dge", "dget"} THEN "dict" ELSE o
\* statements a site declared with operation o can take part in
OwnStmts(i, o) ==
  IF o = "none" THEN {[site |-> i, assert |-> FALSE, op |-> "none", k |-> 0, x |-> 0]}
  ELSE IF o = "dict" THEN [site : {i}, assert : BOOLEAN, op : ChildOps \ {"dget"}, k : Keys, x : Atoms]
                          \cup (IF "dget" \in ChildOps THEN [site : {i}, assert : {FALSE}, op : {"dget"}, k : Keys, x : {0}] ELSE {})
  ELSE [site : {i}, assert : BOOLEAN, op : {o}, k : {0}, x : Atoms]
WrongStmts(i, o) == {[site |-> i, assert |-> FALSE, op |-> w, k |-> 0, x |-> 0] : w \in {w \in WrongOps : KindOfStmtOp(w) # o}}
ChgStmts(i) == IF ChgOK THEN {[site |-> i, assert |-> FALSE, op |-> "chg", k |-> 0, x |-> 0]} ELSE {}
HostileStmts(i, o) == IF ~HostileOK THEN {}
                      ELSE {[site |-> i, assert |-> FALSE, op |-> "raise", k |-> 0, x |-> 0]}
                           \cup (IF o \in {"le", "ge"} THEN {[site |-> i, assert |-> TRUE, op |-> o \o "bot", k |-> 0, x |-> 0]} ELSE {})
                           \cup (IF o \in {"eq", "in"} THEN {[site |-> i, assert |-> TRUE, op |-> o \o sfx, k |-> 0, x |-> 0] : sfx \in {"bad", "nc"}} ELSE {})
Stmts(ops) == UNION {OwnStmts(i, ops[i]) \cup (IF ops[i] = "none" THEN {} ELSE WrongStmts(i, ops[i]) \cup ChgStmts(i) \cup HostileStmts(i, ops[i])) : i \in DOMAIN ops}
Special == {"none", "chg", "raise", "lebot", "gebot", "eqbad", "inbad", "eqnc", "innc"}
IsWrong(ops, s) == s.op \notin Special /\ KindOfStmtOp(s.op) # ops[s.site]
\* a conflicting operation is only used after an own operation of the same site in the same test
ValidTest(ops, t) == \A j \in DOMAIN t : (IsWrong(ops, t[j]) \/ t[j].op = "chg") =>
                        \E i \in 1..(j - 1) : t[i].site = t[j].site /\ ~IsWrong(ops, t[i]) /\ t[i].op \notin Special
Tests(ops) == {t \in UNION {[1..m -> Stmts(ops)] : m \in 1..MaxStmts} : ValidTest(ops, t)}
Progs(ops) == [1..NTests -> Tests(ops)]
\* only a hand-written argument can change its value between evaluations
ChgFits(ss, p) == \A t \in DOMAIN p : \A j \in DOMAIN p[t] :
                     /\ p[t][j].op = "chg" => (ss[p[t][j].site].def /\ \E e \in DOMAIN ss[p[t][j].site].e : ~ss[p[t][j].site].e[e].canon)
                     /\ p[t][j].op \in {"lebot", "gebot"} => ss[p[t][j].site].def

VARIABLES ops, srcs, prog, runs
vars == <<ops, srcs, prog, runs>>

Groups == UNION {{[ops |-> o, srcs |-> s] : s \in {f \in [1..NSites -> UNION {SrcsFor(o[i]) : i \in 1..NSites}] :
                                                     \A i \in 1..NSites : f[i] \in SrcsFor(o[i])}}
                 : o \in [1..NSites -> SiteOps]}
GroupSeq == SetToSeq(Groups)
GroupId == CHOOSE g \in 1..Len(GroupSeq) : GroupSeq[g].ops = ops /\ GroupSeq[g].srcs = srcs

\* Init only chooses the group (ops, srcs); the program is chosen by the first step, so that TLC's
\* workers evaluate the invariants of different groups in parallel (initial states are computed by
\* one thread).  prog = <<>> means "not chosen yet"; every invariant is trivially true there.
Init == /\ runs = 0 /\ prog = <<>>
        /\ \E g \in 1..Len(GroupSeq) : ops = GroupSeq[g].ops /\ srcs = GroupSeq[g].srcs
Pick == /\ Mode = "mc" /\ prog = <<>>
        /\ \E n \in 1..Len(SetToSeq(Progs(ops))) :
              /\ (n + GroupId) % Stride = Offset % Stride
              /\ prog' = SetToSeq(Progs(ops))[n]
              /\ ChgFits(srcs, prog')
        /\ UNCHANGED <<ops, srcs, runs>>
Sess == /\ Mode = "mc" /\ prog # <<>> /\ runs < MaxRuns
        /\ \E F \in SUBSET Cats : srcs' = Run(srcs, prog, F).srcs
        /\ runs' = runs + 1 /\ UNCHANGED <<ops, prog>>
\* emission modes: one dummy step, so that the Emit* invariants (guarded by runs = 1) are evaluated by the
\* workers in parallel instead of by the single thread that computes the initial states
Go == /\ Mode # "mc" /\ runs = 0 /\ runs' = 1 /\ UNCHANGED <<ops, srcs, prog>>
Next == Pick \/ Sess \/ Go
Spec == Init /\ [][Next]_vars

-----------------------------------------------------------------------------
(* ---------- what the properties talk about ---------- *)
\* truth of statement s against the plain value of source src (src.def)
HoldsStmt(s, src) ==
  CASE s.op \in Special -> TRUE
    [] s.op \in ScalarOps -> HoldsScalar(s.op, src.e[1].v, s.x)
    [] s.op = "in" -> s.x \in Rng(ValsOf(src.e))
    [] s.op = "dget" -> TRUE                  \* an access alone asserts nothing
    [] OTHER -> HasKey(src.e, s.k) /\ HoldsScalar(CASE s.op = "deq" -> "eq" [] s.op = "dle" -> "le" [] s.op = "dge" -> "ge",
                                                 src.e[IdxOfKey(src.e, s.k)].v, s.x)
\* executed statements of run R: pairs <<t, j>>
Exec(R) == {p \in (DOMAIN prog) \X (1..MaxStmts) : p[2] <= Len(R.tests[p[1]].res)}
StmtAt(p) == prog[p[1]][p[2]]
ResAt(R, p) == R.tests[p[1]].res[p[2]]
OnSite(R, i) == {p \in Exec(R) : StmtAt(p).site = i /\ ResAt(R, p) \notin {"TE", "UE", "EX", "-"} /\ StmtAt(p).op \notin {"eqbad", "inbad", "eqnc", "innc"}}
\* a test that contradicts itself: one == snapshot (or one == child) compared with different values
Contradictory(R, i) ==
   \E p, q \in OnSite(R, i) : /\ StmtAt(p).op \in {"eq", "deq"} /\ StmtAt(q).op = StmtAt(p).op
                              /\ StmtAt(p).k = StmtAt(q).k /\ StmtAt(p).x # StmtAt(q).x
Fs == SUBSET Cats
\* "the first operation fixes the kind": independent formulation of when a TypeError is expected
Before(q, p) == q[1] < p[1] \/ (q[1] = p[1] /\ q[2] < p[2])
FirstOf(Q) == CHOOSE q \in Q : \A q2 \in Q : q = q2 \/ Before(q, q2)
ExpectTE(R, p) ==
  LET s == StmtAt(p)
      Q == {q \in Exec(R) : StmtAt(q).site = s.site /\ StmtAt(q).op \notin {"none", "chg", "raise"}}
      Kind(o) == CASE o = "lebot" -> "le" [] o = "gebot" -> "ge" [] o \in {"eqbad", "eqnc"} -> "eq" [] o \in {"inbad", "innc"} -> "in" [] OTHER -> KindOfStmtOp(o)
      f == StmtAt(FirstOf(Q))
      QK == {q \in Q : KindOfStmtOp(StmtAt(q).op) = "dict" /\ StmtAt(q).op # "dget" /\ StmtAt(q).k = s.k}
  IN /\ s.op \notin {"none", "chg", "raise"}
     /\ \/ s.op \in {"lebot", "gebot"}
        \/ Kind(s.op) # Kind(f.op)
        \/ KindOfStmtOp(s.op) = "dict" /\ s.op # "dget" /\ s.op # StmtAt(FirstOf(QK)).op

(* C07: a wrong or missing snapshot never yields a green test; a test whose snapshots all hold is
   never red - except through a site that the program compares with different values (one == snapshot
   cannot hold for both; with fix approved it answers for the value it is going to have) *)
C07 == \A F \in Fs : LET R == Run(srcs, prog, F) IN
         \A t \in DOMAIN prog :
            LET wrong == \E p \in Exec(R) : /\ p[1] = t
                           /\ \/ ResAt(R, p) \in {"TE", "UE", "EX"}
                              \/ StmtAt(p).op \in {"eqbad", "inbad", "eqnc", "innc"}
                              \/ StmtAt(p).op \notin Special /\ (~srcs[StmtAt(p).site].def \/ ~HoldsStmt(StmtAt(p), srcs[StmtAt(p).site]))
                contra == \E p \in Exec(R) : p[1] = t /\ Contradictory(R, StmtAt(p).site)
            IN /\ wrong => R.tests[t].failed
               /\ (R.tests[t].failed /\ ~contra) => wrong
(* C06: without flags every comparison answers like the plain value; a second operation raises *)
C06 == LET R == Run(srcs, prog, {}) IN
         \A p \in Exec(R) : LET s == StmtAt(p) IN
            IF ExpectTE(R, p) THEN ResAt(R, p) = "TE"
            ELSE IF s.op = "raise" THEN ResAt(R, p) = "EX"
            ELSE IF s.op \in {"eqbad", "inbad"} THEN ResAt(R, p) \in {"UE", "F"}     \* C17: rejected, never recorded
            ELSE IF s.op \in {"eqnc", "innc"} THEN ResAt(R, p) \in {"TE", "F"}      \* C17: deepcopy refuses the value
            ELSE IF s.op = "chg"       \* C14: a changed argument is a usage error (only hand-written parts can change)
                 THEN ResAt(R, p) = (IF srcs[s.site].def /\ \E j \in DOMAIN srcs[s.site].e : ~srcs[s.site].e[j].canon
                                     THEN "UE" ELSE "-")
            ELSE (s.op \notin {"none", "dget"} /\ srcs[s.site].def /\ (KindOfStmtOp(s.op) # "dict" \/ HasKey(srcs[s.site].e, s.k)))
                    => ResAt(R, p) = B2S(HoldsStmt(s, srcs[s.site]))
(* C05 *)
C05fixiff == \A F \in Fs : LET R == Run(srcs, prog, F) IN
   \A i \in DOMAIN srcs : (srcs[i].def /\ ~Contradictory(R, i)) =>
      (("fix" \in R.pending[i]) <=>
         \E p \in OnSite(R, i) : /\ ~HoldsStmt(StmtAt(p), srcs[i])
                                 /\ (ops[i] # "dict" \/ HasKey(srcs[i].e, StmtAt(p).k)))
C05fixrepairs == \A F \in Fs : LET R == Run(srcs, prog, F) IN
   \A i \in DOMAIN srcs : ({"fix", "create"} \subseteq F /\ ~Contradictory(R, i)) =>
      \A p \in OnSite(R, i) : HoldsStmt(StmtAt(p), R.srcs[i])
C05create == LET R == Run(srcs, prog, {"create"}) IN
   \A i \in DOMAIN srcs : srcs[i].def =>
      /\ Len(R.srcs[i].e) >= Len(srcs[i].e) /\ SubSeq(R.srcs[i].e, 1, Len(srcs[i].e)) = srcs[i].e
      /\ (ops[i] # "dict" => R.srcs[i] = srcs[i])
      /\ \A j \in (Len(srcs[i].e) + 1)..Len(R.srcs[i].e) : ~HasKey(srcs[i].e, R.srcs[i].e[j].k)
C05update == LET R == Run(srcs, prog, {"update"}) IN
   \A i \in DOMAIN srcs : ValsOf(R.srcs[i].e) = ValsOf(srcs[i].e) /\ KeysOf(R.srcs[i].e) = KeysOf(srcs[i].e)
                          /\ R.srcs[i].def = srcs[i].def
\* the key k of dict site i was accessed by an executed statement (compared or only read)
Accessed(R, i, k) == \E p \in Exec(R) : /\ StmtAt(p).site = i /\ KindOfStmtOp(StmtAt(p).op) = "dict" /\ StmtAt(p).k = k
                                         /\ (ResAt(R, p) \notin {"TE", "UE", "EX"} \/ R.sts[i].kind = "dict")
\* trim removes only slack and gives the tightest value
Extreme(o, S) == CHOOSE m \in S : \A y \in S : Better(o, m, y)
C05trim == \A F \in {G \in Fs : "trim" \in G} : LET R == Run(srcs, prog, F) IN
   \A i \in DOMAIN srcs : (srcs[i].def /\ R.sts[i].kind # "undecided" /\ R.sts[i].new # <<>>) =>
      LET obs == {StmtAt(p).x : p \in OnSite(R, i)} IN
      CASE ops[i] \in {"le", "ge"} ->
              ("trim" \in R.pending[i]) => R.srcs[i].e[1].v = Extreme(ops[i], obs)
        [] ops[i] = "in" ->
              \A j \in DOMAIN R.srcs[i].e : R.srcs[i].e[j].v \in obs
        [] ops[i] = "dict" ->
              /\ \A j \in DOMAIN R.srcs[i].e : Accessed(R, i, R.srcs[i].e[j].k)
              /\ \A j \in DOMAIN R.srcs[i].e :
                    LET e == R.srcs[i].e[j]
                        c == R.sts[i].new[IdxOfKey(R.sts[i].new, e.k)]
                    IN (HasKey(srcs[i].e, e.k) /\ c.ck \in {"le", "ge"}
                        /\ "trim" \in ScalarPending(c.ck, srcs[i].e[IdxOfKey(srcs[i].e, e.k)], c.v))
                       => e.v = Extreme(c.ck, {StmtAt(p).x : p \in {q \in OnSite(R, i) : StmtAt(q).k = e.k}})
        [] OTHER -> TRUE
C05trimkeeps == LET R == Run(srcs, prog, {"trim"}) IN
   \A i \in DOMAIN srcs : srcs[i].def =>
      /\ \A p \in OnSite(R, i) : HoldsStmt(StmtAt(p), srcs[i]) => HoldsStmt(StmtAt(p), R.srcs[i])
      \* a key that was accessed is not slack, also when its value was never used in an operation
      /\ ops[i] = "dict" => \A j \in DOMAIN srcs[i].e : Accessed(R, i, srcs[i].e[j].k) => HasKey(R.srcs[i].e, srcs[i].e[j].k)
\* nothing approved: nothing changes
C04inert == Run(srcs, prog, {}).srcs = srcs
(* C08 *)
C08all == LET R1 == Run(srcs, prog, Cats) R2 == Run(R1.srcs, prog, {}) IN
            (\A i \in DOMAIN srcs : ~Contradictory(R1, i)) =>
               /\ AllPending(R2) = {}
               /\ (~R2.rcfail \/ \E p \in Exec(R2) : ResAt(R2, p) \in {"TE", "UE", "EX"})    \* a test that raises by itself stays red
C08same == \A F \in Fs : LET R1 == Run(srcs, prog, F) IN Run(R1.srcs, prog, F).srcs = R1.srcs
(* C09: approving one pending category per run, in any order, until nothing is pending *)
RECURSIVE Finals(_, _)
Finals(s, fuel) == LET P == AllPending(Run(s, prog, {})) IN
   IF P = {} \/ fuel = 0 THEN {s} ELSE UNION {Finals(Run(s, prog, {c}).srcs, fuel - 1) : c \in P}
RECURSIVE FinalAll(_, _)
FinalAll(s, fuel) == LET P == AllPending(Run(s, prog, {})) IN
   IF P = {} \/ fuel = 0 THEN s ELSE FinalAll(Run(s, prog, P).srcs, fuel - 1)
\* finding F13: an assert that aborts its test hides later observations, so the set of observed
\* comparisons depends on what is approved; exempt exactly when some assert of the program can fail
CanAbort == \E t \in DOMAIN prog : \E j \in DOMAIN prog[t] : prog[t][j].assert
C09 == (AbortOK \/ ~CanAbort) => Finals(srcs, Fuel) = {FinalAll(srcs, Fuel)}
(* C19: the public testing helpers and the plugin are the same session *)
C19 == DriversAgree(srcs, prog)
(* C14: sites are independent: the outcome for a site only depends on the statements of that site
   that were executed *)
Proj(R, i) == [t \in DOMAIN prog |-> SelectSeq([j \in 1..Len(R.tests[t].res) |-> prog[t][j]], LAMBDA s : s.site = i)]
C14 == \A F \in Fs : LET R == Run(srcs, prog, F) IN
   \A i \in DOMAIN srcs :
      LET alone == Session([x \in {i} |-> srcs[i]], Proj(R, i), F, F) IN
        /\ alone.pending[i] = R.pending[i] /\ alone.srcs[i] = R.srcs[i] /\ alone.sts[i] = R.sts[i]

-----------------------------------------------------------------------------
(* ---------- emission of cases (mode "emit") ---------- *)
CatNum(c) == CASE c = "create" -> 1 [] c = "fix" -> 2 [] c = "trim" -> 3 [] c = "update" -> 4
CatSeq(S) == SetToSortSeq({CatNum(c) : c \in S}, <)
FsSeq == SetToSeq(Fs)
OneRunS(ss, p, F, imp) ==
  LET R == SessionE(ss, p, F, F, IF imp THEN DOMAIN ss ELSE {}) IN
  [F |-> CatSeq(F), imp |-> imp,
   res |-> [t \in DOMAIN p |-> R.tests[t].res],
   failed |-> [t \in DOMAIN p |-> R.tests[t].failed],
   miss |-> [t \in DOMAIN p |-> R.tests[t].miss],
   inc |-> [t \in DOMAIN p |-> R.tests[t].inc],
   pending |-> [i \in DOMAIN ss |-> CatSeq(R.pending[i])],
   srcs |-> R.srcs]
OneRun(p, F, imp) == OneRunS(srcs, p, F, imp)
HasChg(p) == \E t \in DOMAIN p : \E j \in DOMAIN p[t] : p[t][j].op = "chg"
\* a history of sessions: Fseq[k] is approved in session k; each session starts from what the previous one wrote
ChainFrom(ss, p, Fseq, imp) ==
  LET st[k \in 0..Len(Fseq)] == IF k = 0 THEN ss ELSE SessionE(st[k-1], p, Fseq[k], Fseq[k], IF imp THEN DOMAIN ss ELSE {}).srcs
  IN [k \in 1..Len(Fseq) |-> OneRunS(st[k-1], p, Fseq[k], imp)]
\* C09: every way of approving one pending category per session until nothing is pending
RECURSIVE Paths(_, _, _)
Paths(ss, p, fuel) ==
  LET P == AllPending(Run(ss, p, {})) IN
  IF P = {} \/ fuel = 0 THEN {<<>>}
  ELSE UNION {{<<{c}>> \o rest : rest \in Paths(Run(ss, p, {c}).srcs, p, fuel - 1)} : c \in P}
RECURSIVE AllAtOnce(_, _, _)
AllAtOnce(ss, p, fuel) ==
  LET P == AllPending(Run(ss, p, {})) IN
  IF P = {} \/ fuel = 0 THEN <<>> ELSE <<P>> \o AllAtOnce(Run(ss, p, P).srcs, p, fuel - 1)
RECURSIVE FinalsP(_, _, _)
FinalsP(ss, p, fuel) == LET P == AllPending(Run(ss, p, {})) IN
   IF P = {} \/ fuel = 0 THEN {ss} ELSE UNION {FinalsP(Run(ss, p, {c}).srcs, p, fuel - 1) : c \in P}
RECURSIVE FinalAllP(_, _, _)
FinalAllP(ss, p, fuel) == LET P == AllPending(Run(ss, p, {})) IN
   IF P = {} \/ fuel = 0 THEN ss ELSE FinalAllP(Run(ss, p, P).srcs, p, fuel - 1)
ProgSeq == SetToSeq(Progs(ops))
Emit == (Mode = "emit" /\ runs = 1) =>
  LET ps == ProgSeq
      sel == {n \in 1..Len(ps) : (n + GroupId) % Stride = Offset % Stride /\ ChgFits(srcs, ps[n])}
      cases == [n \in sel |-> [prog |-> ps[n],
                               runs |-> [f \in 1..Len(FsSeq) |-> OneRun(ps[n], FsSeq[f], (n + f) % 2 = 0 /\ ~HasChg(ps[n]))]]]
  IN JsonSerialize(IOEnv.OUT_DIR \o "/group_" \o ToString(GroupId) \o ".json",
                   [ops |-> ops, srcs |-> srcs, cases |-> SetToSeq({cases[n] : n \in sel})])
\* histories of identical sessions (C08): <<F, F>> for every F and <<Cats, {}>>
EmitChain8 == (Mode = "chain8" /\ runs = 1) =>
  LET ps == ProgSeq
      sel == {n \in 1..Len(ps) : (n + GroupId) % Stride = Offset % Stride /\ ChgFits(srcs, ps[n])}
      cases == [n \in sel |-> [prog |-> ps[n],
                 chains |-> [f \in 1..(Len(FsSeq) + 1) |->
                     IF f <= Len(FsSeq) THEN ChainFrom(srcs, ps[n], <<FsSeq[f], FsSeq[f]>>, (n + f) % 2 = 0 /\ ~HasChg(ps[n]))
                     ELSE ChainFrom(srcs, ps[n], <<Cats, {}>>, n % 2 = 0 /\ ~HasChg(ps[n]))]]]
  IN JsonSerialize(IOEnv.OUT_DIR \o "/group_" \o ToString(GroupId) \o ".json",
                   [ops |-> ops, srcs |-> srcs, cases |-> SetToSeq({cases[n] : n \in sel})])
\* orders of approval (C09): programs with at least two pending categories
EmitChain9 == (Mode = "chain9" /\ runs = 1) =>
  LET ps == ProgSeq
      sel == {n \in 1..Len(ps) : (n + GroupId) % Stride = Offset % Stride /\ ChgFits(srcs, ps[n])
                                   /\ Cardinality(AllPending(Run(srcs, ps[n], {}))) >= 2}
      cases == [n \in sel |-> [prog |-> ps[n],
                 confluent |-> FinalsP(srcs, ps[n], Fuel) = {FinalAllP(srcs, ps[n], Fuel)},
                 final |-> FinalAllP(srcs, ps[n], Fuel),
                 chains |-> SetToSeq({ChainFrom(srcs, ps[n], path, FALSE) : path \in Paths(srcs, ps[n], Fuel)}),
                 atonce |-> ChainFrom(srcs, ps[n], AllAtOnce(srcs, ps[n], Fuel), FALSE)]]
  IN JsonSerialize(IOEnv.OUT_DIR \o "/group_" \o ToString(GroupId) \o ".json",
                   [ops |-> ops, srcs |-> srcs, cases |-> SetToSeq({cases[n] : n \in sel})])
=============================================================================
