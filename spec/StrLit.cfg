\* string literals: all strings up to length N over 11 character classes
SPECIFICATION Spec
CONSTANTS
  N = 4
  Alphabet = {"sp", "tab", "nl", "cr", "sq", "dq", "bs", "a", "u", "np", "x"}
  EscapeFinalTwice = FALSE
  Mode = "mc"
  Stride = 1
  Offset = 0
INVARIANT RoundTrip
INVARIANT TripleIffMultiline
INVARIANT Emit
CHECK_DEADLOCK FALSE
