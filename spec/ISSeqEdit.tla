------------------------------ MODULE ISSeqEdit ------------------------------
(***************************************************************************)
(* Editing the elements of a display or a call in place                    *)
(* (src/inline_snapshot/_change.py: apply_all, generic_sequence_update,    *)
(* include_parentheses).                                                   *)
(*                                                                         *)
(* The source of a container is a token sequence                           *)
(*      OPEN  e1 , e2 , ... en [,]  CLOSE                                  *)
(* where an element is one opaque token, possibly wrapped in parentheses   *)
(* that belong to it.  An edit is a set of deleted elements and, per       *)
(* position 0..n, a list of new element codes to insert in front of that   *)
(* position (n = at the end).  generic_sequence_update turns the edit into *)
(* replacements of the GAPS between tokens; GSU below is its transcription *)
(* statement by statement.  What the user is promised is declarative:      *)
(* the result parses as a container of the same kind whose elements are    *)
(* exactly the kept old elements (verbatim, with their parentheses) and    *)
(* the inserted ones at their positions; a tuple with one element keeps    *)
(* its trailing comma; the replacements do not overlap.                    *)
(*                                                                         *)
(* Edits come from the PRODUCERS in the code: the edit script of the       *)
(* sequence adapter (ISAlign: add_x(align(old, new))), the dict adapter /  *)
(* dict sub-snapshots / `in` collections (any deletions, insertions in     *)
(* front of kept elements or at the end), constructor calls.               *)
(***************************************************************************)
EXTENDS ISAlign, TLC

Tok(t, i) == [t |-> t, id |-> i]
OPEN == Tok("open", 0)
CLOSE == Tok("close", 0)
COMMA == Tok("comma", 0)
LP == Tok("lp", 0)
RP == Tok("rp", 0)
Old(i) == Tok("old", i)
New(i) == Tok("new", i)

RECURSIVE Flat(_)
Flat(ss) == IF ss = <<>> THEN <<>> ELSE Head(ss) \o Flat(Tail(ss))

\* tokens of element i of a source whose elements i \in parens are parenthesised
ElemToks(i, parens) == IF i \in parens THEN <<LP, Old(i), RP>> ELSE <<Old(i)>>
SourceToks(n, parens, trailing) ==
   <<OPEN>> \o Flat([i \in 1..n |-> (IF i > 1 THEN <<COMMA>> ELSE <<>>) \o ElemToks(i, parens)])
            \o (IF trailing /\ n > 0 THEN <<COMMA>> ELSE <<>>) \o <<CLOSE>>
\* token range (first, last) of element i incl. its parentheses (include_parentheses)
FirstIdx(toks, i) == CHOOSE p \in DOMAIN toks : toks[p] = Old(i)
ElemRange(toks, i) == LET p == FirstIdx(toks, i) IN
                      IF p > 1 /\ toks[p - 1] = LP /\ toks[p + 1] = RP THEN <<p - 1, p + 1>> ELSE <<p, p>>

(* an edit: del \subseteq 1..n; ins[p], p \in 0..n = sequence of new element ids inserted in front of
   element p+1 (p = n: at the end) *)
JoinNew(ids) == Flat([j \in DOMAIN ids |-> (IF j > 1 THEN <<COMMA>> ELSE <<>>) \o <<New(ids[j])>>])

(***************************************************************************)
(* generic_sequence_update, statement by statement.  State of the loop:    *)
(* newc (pending new codes), deleted, last (index of last_token), start    *)
(* (is_start), elements, reps (replacements [from, to, code]: the text     *)
(* between the END of token `from` and the START of token `to` becomes     *)
(* `code`).                                                                *)
(***************************************************************************)
RECURSIVE GSULoop(_, _, _, _, _, _)
GSULoop(toks, n, del, ins, idx, s) ==
  IF idx > n THEN s
  ELSE
    LET newc1 == s.newc \o ins[idx - 1]            \* if index in to_insert: new_code += to_insert[index]
    IN IF idx \in del
       THEN GSULoop(toks, n, del, ins, idx + 1, [s EXCEPT !.newc = newc1, !.deleted = TRUE])
       ELSE LET r == ElemRange(toks, idx)
                elements1 == s.elements + Len(newc1) + 1
                code0 == IF newc1 # <<>> THEN JoinNew(newc1) \o <<COMMA>> ELSE <<>>
                code == IF ~s.start THEN <<COMMA>> \o code0 ELSE code0
                reps1 == IF s.deleted \/ newc1 # <<>>
                         THEN Append(s.reps, [from |-> s.last, to |-> r[1], code |-> code]) ELSE s.reps
            IN GSULoop(toks, n, del, ins, idx + 1,
                       [newc |-> <<>>, deleted |-> FALSE, last |-> r[2], start |-> FALSE,
                        elements |-> elements1, reps |-> reps1])

GSU(kind, toks, n, del, ins) ==
  LET s0 == [newc |-> <<>>, deleted |-> FALSE, last |-> 1, start |-> TRUE, elements |-> 0, reps |-> <<>>]
      s == GSULoop(toks, n, del, ins, 1, s0)
      hasEnd == ins[n] # <<>>
      newc == IF hasEnd THEN s.newc \o ins[n] ELSE s.newc
      elements == IF hasEnd THEN s.elements + Len(newc) ELSE s.elements
      code0 == JoinNew(newc)
      code1 == IF ~s.start /\ code0 # <<>> THEN <<COMMA>> \o code0 ELSE code0
      code == IF elements = 1 /\ kind = "tuple" THEN code1 \o <<COMMA>> ELSE code1
  IN IF newc # <<>> \/ s.deleted \/ elements = 1 \/ n <= 1
     THEN Append(s.reps, [from |-> s.last, to |-> Len(toks), code |-> code])
     ELSE s.reps

\* the token sequence after the replacements (they are sorted by construction)
RECURSIVE Apply(_, _, _)
Apply(toks, reps, pos) ==       \* pos = next token of toks to copy
  IF reps = <<>> THEN SubSeq(toks, pos, Len(toks))
  ELSE LET r == Head(reps) IN SubSeq(toks, pos, r.from) \o r.code \o Apply(toks, Tail(reps), r.to)
NoOverlap(reps) == \A a \in DOMAIN reps : /\ reps[a].from < reps[a].to
                                          /\ (a > 1 => reps[a - 1].to <= reps[a].from)
Result(kind, toks, n, del, ins) == Apply(toks, GSU(kind, toks, n, del, ins), 1)

(***************************************************************************)
(* Parsing a token sequence as a container: elements separated by commas   *)
(* at parenthesis depth 0; an empty element is only allowed as the very    *)
(* last one (trailing comma).                                              *)
(***************************************************************************)
RECURSIVE Split(_, _, _, _)
Split(toks, p, cur, acc) ==      \* toks without OPEN/CLOSE
  IF p > Len(toks) THEN Append(acc, cur)
  ELSE IF toks[p] = COMMA THEN Split(toks, p + 1, <<>>, Append(acc, cur))
  ELSE IF toks[p] = LP THEN Split(toks, p + 3, cur \o SubSeq(toks, p, p + 2), acc)     \* ( old )
  ELSE Split(toks, p + 1, Append(cur, toks[p]), acc)
Inner(toks) == SubSeq(toks, 2, Len(toks) - 1)
Groups(toks) == IF Inner(toks) = <<>> THEN <<>> ELSE Split(Inner(toks), 1, <<>>, <<>>)
WellFormed(toks) ==
  /\ Len(toks) >= 2 /\ toks[1] = OPEN /\ toks[Len(toks)] = CLOSE
  /\ \A p \in 2..(Len(toks) - 1) : toks[p].t \notin {"open", "close"}
  /\ \A p \in DOMAIN toks : toks[p] = LP => (p + 2 <= Len(toks) /\ toks[p + 1].t = "old" /\ toks[p + 2] = RP)
  /\ \A p \in DOMAIN toks : toks[p] = RP => (p > 2 /\ toks[p - 2] = LP)
  /\ LET g == Groups(toks) IN
     /\ \A j \in DOMAIN g : (g[j] = <<>>) => (j = Len(g) /\ j > 1)      \* only a trailing comma may be "empty"
     /\ \A j \in DOMAIN g : Len(g[j]) \in {0, 1, 3}
HasTrailing(toks) == LET g == Groups(toks) IN g # <<>> /\ g[Len(g)] = <<>>
Elements(toks) == LET g == Groups(toks) IN IF HasTrailing(toks) THEN SubSeq(g, 1, Len(g) - 1) ELSE g

\* what the edit means
Expected(n, parens, del, ins) ==
  Flat([p \in 1..(n + 1) |-> [j \in DOMAIN ins[p - 1] |-> <<New(ins[p - 1][j])>>]
                             \o (IF p <= n /\ p \notin del THEN <<ElemToks(p, parens)>> ELSE <<>>)])

Correct(kind, n, parens, trailing, del, ins) ==
  LET toks == SourceToks(n, parens, trailing)
      reps == GSU(kind, toks, n, del, ins)
      out == Apply(toks, reps, 1)
  IN /\ NoOverlap(reps)
     /\ WellFormed(out)
     /\ Elements(out) = Expected(n, parens, del, ins)
     \* (1,) - a tuple with one element needs its comma
     /\ (kind = "tuple" /\ Len(Elements(out)) = 1) => HasTrailing(out)
     \* nothing to do: nothing is replaced, except the normalisation of the end of a container with <= 1 element
     /\ (del = {} /\ \A p \in 0..n : ins[p] = <<>> /\ n >= 2) => reps = <<>>

(***************************************************************************)
(* Producers of edits                                                      *)
(***************************************************************************)
\* the sequence adapter: walk add_x(align(old, new)); new element ids are positions in `new`
RECURSIVE FromScript(_, _, _, _, _)
FromScript(script, p, oi, ni, acc) ==      \* acc = [del, ins]
  IF p > Len(script) THEN acc
  ELSE LET c == script[p] IN
       IF c \in {"m", "x"} THEN FromScript(script, p + 1, oi + 1, ni + 1, acc)
       ELSE IF c = "i" THEN FromScript(script, p + 1, oi, ni + 1,
                                        [acc EXCEPT !.ins[oi] = Append(@, ni + 1)])
       ELSE FromScript(script, p + 1, oi + 1, ni, [acc EXCEPT !.del = @ \cup {oi + 1}])
SeqEdit(old, new) == FromScript(Script(old, new, LAMBDA a, b : a = b), 1, 0, 0,
                                [del |-> {}, ins |-> [p \in 0..Len(old) |-> <<>>]])
=============================================================================
