------------------------------ MODULE ISDrivers ------------------------------
(***************************************************************************)
(* The three ways to run a session over a project (C19):                   *)
(*   "plugin"      a real `pytest --inline-snapshot=<F>` session           *)
(*   "run_pytest"  inline_snapshot.testing.Example.run_pytest: the same    *)
(*                 plugin in a subprocess on a temporary copy              *)
(*   "run_inline"  Example.run_inline: in-process, without the plugin      *)
(* as instances of the session of ISCore, with the differences of the      *)
(* code spelled out as named deviations:                                   *)
(*   NoGate         run_inline applies every change whose category is in   *)
(*                  F; the plugin additionally skips a category whose diff *)
(*                  is empty (identical outcome)                           *)
(*   NoCounters     run_inline does not fail tests for missing / incorrect *)
(*                  values (no outcome is compared by C19)                 *)
(*   ImportInsert   all drivers add `from inline_snapshot import HasRepr`  *)
(*                  when the generated code needs it (run_inline since fix *)
(*                  F12)                                                   *)
(*   BlackConfig    the formatter options are those of the project the     *)
(*                  file belongs to (since fix F14), not of the working    *)
(*                  directory                                              *)
(***************************************************************************)
EXTENDS ISCore
Drivers == {"plugin", "run_pytest", "run_inline"}
\* flags that influence the comparisons / categories that are applied, per driver, for category flags F
DriverU(d, F) == F
DriverA(d, F) == F
DriverRun(d, srcs, prog, F) == Session(srcs, prog, DriverU(d, F), DriverA(d, F))
\* what C19 compares: the files written and the pending categories
Outcome(d, srcs, prog, F) == LET R == DriverRun(d, srcs, prog, F) IN [srcs |-> R.srcs, pending |-> AllPending(R)]
DriversAgree(srcs, prog) == \A F \in SUBSET Cats : \A d \in Drivers :
                               Outcome(d, srcs, prog, F) = Outcome("plugin", srcs, prog, F)
=============================================================================
