------------------------------ MODULE MC_Format ------------------------------
EXTENDS ISFormat, Json, IOUtils, SequencesExt
CONSTANTS Mode
Shapes == {"short", "under", "at", "over", "nested", "multiline-str", "trailing-comma", "collapse"}
Cases == {x \in [clean : BOOLEAN, fmtcmd : BOOLEAN, opts : OptIds, cwd : {"root", "sub", "outside"}, shape : Shapes,
                  cats : {"create", "fix", "create-fix"}, loc : {"own", "outer", "gitstop"}] :
             \* (the other locations only with black as the formatter, and with options that differ from the defaults)
             x.loc # "own" => (~x.fmtcmd /\ x.opts # 0)}
VARIABLES c, step
Init == c \in Cases /\ step = 0
Next == step = 0 /\ step' = 1 /\ UNCHANGED c
Spec == Init /\ [][Next]_<<c, step>>
C20clean == CleanStaysClean(c)
C20unclean == UncleanNotReformatted(c)
CaseSeq == SetToSeq(Cases)
Emit == TRUE
ASSUME Mode = "emit" =>
   LET cs == CaseSeq IN
   JsonSerialize(IOEnv.OUT_DIR \o "/cases.json",
                 [cases |-> [n \in 1..Len(cs) |-> [c |-> cs[n], reformat |-> Reformat(cs[n]), clean_after |-> CleanAfter(cs[n])]]])
=============================================================================
