----------------------------- MODULE ISRewrite -----------------------------
(***************************************************************************)
(* The end-of-session pipeline of the plugin as separately interruptible   *)
(* steps (transitions T8-T13; pytest_plugin.py:439-538,                    *)
(* _rewrite_code.py:132-188, _external.py:47-54) with ONE injected fault.  *)
(*                                                                         *)
(* phases  report : diffs are computed on virtual copies (format calls)    *)
(*         prep   : per file  compute* -> parse -> persist the externals   *)
(*         write  : per file  compute* -> open (truncates) -> write        *)
(*         trim   : unused externals are removed (if trim is approved)     *)
(*         done   : the snapshot context is left (finally)                 *)
(* compute = read the file and call the formatter (black or the            *)
(* format-command); its result is the buffer `buf`:                        *)
(*   "fmt" formatted new code, "unf" unformatted new code (formatter       *)
(*   failed with an error -> degrade), "garbage" (formatter printed        *)
(*   something that is not the program).                                   *)
(* Faults: Exception / Crash at any step boundary, FmtError (non-zero exit *)
(* or exception in black), FmtGarbage, WriteFail (the open succeeded, the  *)
(* write did not).                                                         *)
(***************************************************************************)
EXTENDS Naturals, Sequences, FiniteSets, TLC

CONSTANTS Order,        \* sequence of the files with approved changes
          HasExt,       \* files whose new content references a freshly outsourced external
          AtomicWrite,  \* design alternative: replace the file atomically (as coded: FALSE)
          ParseInWrite  \* design alternative: check the recomputed text before writing it (as coded: FALSE)

Files == {Order[i] : i \in DOMAIN Order}
N == Len(Order)
VARIABLES phase, idx, sub,   \* position in the pipeline; sub in {"compute", "persist", "open", "write"}
          buf,               \* content computed for the current file
          disk,              \* [Files -> {"old", "trunc", "new", "unf", "garbage"}]
          store,             \* [Files -> {"none", "new", "kept", "gone"}] the external of that file
          fault,             \* "none" | "exc" | "crash"
          degraded,          \* a formatter error was reported as a problem
          popped, started
vars == <<phase, idx, sub, buf, disk, store, fault, degraded, popped, started>>

Init == /\ phase = "report" /\ idx = 1 /\ sub = "compute" /\ buf = "none"
        /\ disk = [f \in Files |-> "old"]
        /\ store = [f \in Files |-> IF f \in HasExt THEN "new" ELSE "none"]
        /\ fault = "none" /\ degraded = FALSE /\ popped = FALSE /\ started = FALSE
Running == fault = "none" /\ phase \in {"report", "prep", "write", "trim"}
Cur == Order[idx]

(* ---- formatter invocations (any number per compute step; each may fail) ---- *)
FmtOk == /\ Running /\ sub = "compute" /\ buf' = (IF buf \in {"unf", "garbage"} THEN buf ELSE "fmt")
         /\ UNCHANGED <<phase, idx, sub, disk, store, fault, degraded, popped, started>>
FmtError == /\ Running /\ sub = "compute" /\ buf' = (IF buf = "garbage" THEN buf ELSE "unf") /\ degraded' = TRUE
            /\ UNCHANGED <<phase, idx, sub, disk, store, fault, popped, started>>
FmtGarbage == /\ Running /\ sub = "compute" /\ buf' = "garbage"
              /\ UNCHANGED <<phase, idx, sub, disk, store, fault, degraded, popped, started>>
\* the invocation that only CHECKS whether the file is formatter-clean: garbage just means "not clean",
\* the file is then not re-formatted as a whole
FmtCheckGarbage == /\ Running /\ sub = "compute" /\ buf' = (IF buf = "garbage" THEN buf ELSE "unf")
                   /\ UNCHANGED <<phase, idx, sub, disk, store, fault, degraded, popped, started>>

(* ---- the pipeline ---- *)
\* leaving the report phase: nothing on disk has changed
StartPrep == /\ Running /\ phase = "report" /\ phase' = "prep" /\ idx' = 1 /\ sub' = "compute" /\ buf' = "none"
             /\ UNCHANGED <<disk, store, fault, degraded, popped, started>>
\* prep: the computed text is parsed; garbage is an exception (nothing has been written yet)
Parse == /\ Running /\ phase = "prep" /\ sub = "compute"
         /\ IF buf = "garbage"
            THEN /\ fault' = "exc" /\ popped' = TRUE /\ phase' = "done" /\ UNCHANGED <<idx, sub, buf, disk, store, degraded, started>>
            ELSE /\ sub' = "persist" /\ UNCHANGED <<phase, idx, buf, disk, store, fault, degraded, popped, started>>
Persist == /\ Running /\ phase = "prep" /\ sub = "persist"
           /\ store' = [store EXCEPT ![Cur] = IF @ = "new" THEN "kept" ELSE @]
           /\ IF idx < N THEN idx' = idx + 1 /\ phase' = "prep" ELSE idx' = 1 /\ phase' = "write"
           /\ sub' = "compute" /\ buf' = "none"
           /\ UNCHANGED <<disk, fault, degraded, popped, started>>
\* write: the text is computed AGAIN, then the file is opened (truncated) and written
Open == /\ Running /\ phase = "write" /\ sub = "compute"
        /\ IF ParseInWrite /\ buf = "garbage"
           THEN /\ fault' = "exc" /\ popped' = TRUE /\ phase' = "done" /\ UNCHANGED <<idx, sub, buf, disk, store, degraded, started>>
           ELSE /\ sub' = "write" /\ disk' = [disk EXCEPT ![Cur] = IF AtomicWrite THEN @ ELSE "trunc"]
                /\ UNCHANGED <<phase, idx, buf, store, fault, degraded, popped, started>>
Write == /\ Running /\ phase = "write" /\ sub = "write"
         /\ disk' = [disk EXCEPT ![Cur] = CASE buf = "garbage" -> "garbage" [] buf = "unf" -> "unf" [] OTHER -> "new"]
         /\ IF idx < N THEN idx' = idx + 1 /\ phase' = "write" ELSE idx' = 1 /\ phase' = "trim"
         /\ sub' = "compute" /\ buf' = "none"
         /\ UNCHANGED <<store, fault, degraded, popped, started>>
Trim == /\ Running /\ phase = "trim" /\ phase' = "done" /\ popped' = TRUE
        /\ UNCHANGED <<idx, sub, buf, disk, store, fault, degraded, started>>

(* ---- one fault ---- *)
Exception == /\ Running /\ fault' = "exc" /\ popped' = TRUE /\ phase' = "done"      \* finally: leave_snapshot_context
             /\ UNCHANGED <<idx, sub, buf, disk, store, degraded, started>>
Crash == /\ Running /\ fault' = "crash" /\ phase' = "done"
         /\ UNCHANGED <<idx, sub, buf, disk, store, degraded, popped, started>>
NextStart == /\ phase = "done" /\ ~started /\ started' = TRUE
             /\ store' = [f \in Files |-> IF store[f] = "new" THEN "gone" ELSE store[f]]    \* prune_new_files
             /\ UNCHANGED <<phase, idx, sub, buf, disk, fault, degraded, popped>>
Step == FmtOk \/ StartPrep \/ Parse \/ Persist \/ Open \/ Write \/ Trim
Next == Step \/ FmtError \/ FmtGarbage \/ FmtCheckGarbage \/ Exception \/ Crash \/ NextStart
Spec == Init /\ [][Next]_vars /\ WF_vars(StartPrep \/ Parse \/ Persist \/ Open \/ Write \/ Trim) /\ WF_vars(NextStart)

(* ---------------- C15 ---------------- *)
\* no half-written file - as coded there is ONE window: a fault between open() and write() leaves the file
\* truncated (finding F10); Atomic is what holds as coded, AtomicStrict what the property asks for
InWriteWindow(f) == phase = "done" /\ fault # "none" /\ sub = "write" /\ Cur = f
Atomic == phase = "done" => \A f \in Files : disk[f] \in {"old", "new", "unf"} \/ (disk[f] = "trunc" /\ InWriteWindow(f))
                                             \/ disk[f] = "garbage"
AtomicStrict == phase = "done" => \A f \in Files : disk[f] \in {"old", "new", "unf"}
\* a formatter that prints garbage never ends up in a test file
NoGarbage == \A f \in Files : disk[f] # "garbage"
\* no reference to data that the next session prunes
NoDangling == started => \A f \in HasExt : disk[f] \in {"new", "unf"} => store[f] = "kept"
\* persisted before the reference is written
PersistFirst == \A f \in HasExt : disk[f] \in {"new", "unf", "trunc", "garbage"} => store[f] = "kept"
\* a formatter error alone degrades: the pipeline goes on, the code written is complete and a problem is reported
Degrades == (phase = "done" /\ fault = "none") => \A f \in Files : disk[f] \in {"new", "unf", "garbage"}
AlwaysPopped == (phase = "done" /\ fault # "crash") => popped
Completes == <>(phase = "done")
=============================================================================
