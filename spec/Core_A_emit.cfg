\* emission of replay cases for the single-site space
SPECIFICATION Spec
CONSTANTS
  NAtoms = 3
  Keys = {1, 2}
  SiteOps = {"eq", "le", "ge", "in", "dict", "none"}
  ChildOps = {"deq", "dle", "dget"}
  WrongOps = {"eq", "in"}
  ChgOK = TRUE
  HostileOK = FALSE
  NSites = 1
  NTests = 1
  MaxStmts = 2
  MaxRuns = 1
  MaxSrcLen = 2
  Mode = "emit"
  Stride = 1
  Offset = 0
  Fuel = 6
  AbortOK = FALSE
CHECK_DEADLOCK FALSE
INVARIANT Emit
INVARIANT EmitChain8
INVARIANT EmitChain9
