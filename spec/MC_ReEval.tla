------------------------------ MODULE MC_ReEval ------------------------------
(***************************************************************************)
(* Bounded instance of ISReEval; mode "emit" writes every terminal state   *)
(* (sampled by Stride / Offset) as a JSON case for                         *)
(* harness/reeval_replay.py.                                               *)
(***************************************************************************)
EXTENDS ISReEval, Json, IOUtils

CONSTANTS Mode, Stride, Offset

A == Cardinality(Atoms)
KNum(x) == CASE x = "lit" -> 0 [] x = "dyn" -> 1 [] x = "ref" -> 2
KindsId == LET F[s \in 0..NSlots] == IF s = 0 THEN 0 ELSE F[s - 1] * 3 + KNum(kinds[s]) IN F[NSlots]
ValsId(v) == LET F[s \in 0..NSlots] == IF s = 0 THEN 0 ELSE F[s - 1] * A + v[s] IN F[NSlots]
PowA == LET P[s \in 0..NSlots] == IF s = 0 THEN 1 ELSE P[s - 1] * A IN P[NSlots]
EvalId(e) == ValsId(e.vals) * (NSlots + 1) + e.diff
EvBase == PowA * (NSlots + 1) + 1
EvsId == LET G[j \in 0..Len(evs)] == IF j = 0 THEN 0 ELSE G[j - 1] * EvBase + EvalId(evs[j]) + 1 IN G[Len(evs)]
Id == EvsId * 27 + KindsId

Emit == (Mode = "emit" /\ pc = "done" /\ Id % Stride = Offset % Stride) =>
   JsonSerialize(IOEnv.OUT_DIR \o "/case_" \o ToString(Id) \o ".json",
                 [id |-> Id, kinds |-> kinds, res |-> res,
                  evs |-> [j \in DOMAIN evs |-> [vals |-> evs[j].vals, diff |-> evs[j].diff,
                                                 cmp |-> [s \in Slots |-> IF evs[j].diff = s THEN Next1(evs[j].vals[s]) ELSE evs[j].vals[s]]]]])
=============================================================================
