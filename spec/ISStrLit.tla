------------------------------ MODULE ISStrLit ------------------------------
(***************************************************************************)
(* Generation of Python string literals for str values                     *)
(* (src/inline_snapshot/_utils.py: value_to_token/map_string,              *)
(* _str_literal_helper, triple_quote; repr(str) of CPython) and the        *)
(* Python lexer that reads them back - over character CLASSES.             *)
(*                                                                         *)
(*   Encode(s)   the literal the tool generates for the value s            *)
(*   Lex(body)   the value a literal body denotes                          *)
(*   RoundTrip   WellFormed(Encode(s)) /\ Lex(Encode(s).body) = s   (C12)  *)
(*                                                                         *)
(* The code formatter is an environment action: by contract it may         *)
(* replace a literal by any other literal with the same value; the one     *)
(* context where black breaks that contract - a lone string statement is   *)
(* treated as a docstring - is the variable `lone` (finding F1).           *)
(***************************************************************************)
EXTENDS Naturals, Sequences, FiniteSets, TLC

CONSTANT EscapeFinalTwice     \* design as coded before fix F28 (TRUE): RoundTrip fails for strings with both triple quotes

\* character classes of the VALUE
\*  sp space, tab, nl \n, cr \r, sq ', dq ", bs backslash, a printable ASCII, u printable non-ASCII,
\*  np non-printable (control characters, form feed, NEL, LS/PS, lone surrogates, unassigned), x astral printable
Chars == {"sp", "tab", "nl", "cr", "sq", "dq", "bs", "a", "u", "np", "x"}
\* a literal body is a sequence of SOURCE characters: value classes that appear raw, "NL" = a raw line end in
\* the source, and the letters of escape sequences "n" "r" "t" "X" (X = any \x.. \u.... \U........ escape)
Str(n) == UNION {[1..m -> Chars] : m \in 0..n}
Count(s, c) == Cardinality({j \in DOMAIN s : s[j] = c})
HasSub(s, sub) == \E k \in 0..(Len(s) - Len(sub)) : \A j \in 1..Len(sub) : s[k + j] = sub[j]
RECURSIVE Cat(_)
Cat(ss) == IF ss = <<>> THEN <<>> ELSE Head(ss) \o Cat(Tail(ss))

(* ---------- repr(str) ---------- *)
ReprQuote(s) == IF Count(s, "sq") > 0 /\ Count(s, "dq") = 0 THEN "dq" ELSE "sq"
ReprEsc(c, q) == CASE c = "bs" -> <<"bs", "bs">>
                   [] c = q -> <<"bs", c>>
                   [] c = "nl" -> <<"bs", "n">>
                   [] c = "cr" -> <<"bs", "r">>
                   [] c = "tab" -> <<"bs", "t">>
                   [] c = "np" -> <<"bs", "X">>
                   [] OTHER -> <<c>>
PyRepr(s) == LET q == ReprQuote(s) IN [q |-> q, triple |-> FALSE, body |-> Cat([j \in DOMAIN s |-> ReprEsc(s[j], q)])]

(* ---------- triple_quote (transcription of _str_literal_helper + triple_quote) ---------- *)
NeedsTriple(s) == s # <<>> /\ ((Count(s, "nl") > 0 /\ s[Len(s)] # "nl") \/ Count(s, "nl") > 1)
TQEsc(c, extra) == CASE c = "nl" -> <<"NL">>          \* raw newline in the source
                     [] c = "tab" -> <<"tab">>
                     [] c = "bs" -> <<"bs", "bs">>
                     [] c = "cr" -> <<"bs", "r">>
                     [] c = "np" -> <<"bs", "X">>
                     [] c = extra -> <<"bs", c>>
                     [] OTHER -> <<c>>
Triple(q) == <<q, q, q>>
RECURSIVE ReplaceSpNl(_)
ReplaceSpNl(b) == IF Len(b) < 2 THEN b
                  ELSE IF b[1] = "sp" /\ b[2] = "NL" THEN <<"sp", "bs", "n", "bs", "NL">> \o ReplaceSpNl(SubSeq(b, 3, Len(b)))
                  ELSE <<b[1]>> \o ReplaceSpNl(Tail(b))
TripleQuote(s) ==
  LET extra == IF HasSub(s, Triple("sq")) /\ HasSub(s, Triple("dq"))
               THEN (IF Count(s, "sq") >= Count(s, "dq") THEN "dq" ELSE "sq") ELSE "none"
      esc == Cat([j \in DOMAIN s |-> TQEsc(s[j], extra)])
      poss == SelectSeq(<<"dq", "sq">>, LAMBDA q : ~HasSub(esc, Triple(q)))
      last == esc[Len(esc)]
      sorted == SelectSeq(poss, LAMBDA q : q # last) \o SelectSeq(poss, LAMBDA q : q = last)
      q == sorted[1]
      \* a final quote of the chosen kind is escaped - unless it already is, as the extra quote (since fix F28; as
      \* coded before, it was escaped twice: a backslash followed by the closing quotes)
      esc2 == IF q = last /\ (EscapeFinalTwice \/ last # extra)
              THEN SubSeq(esc, 1, Len(esc) - 1) \o <<"bs", last>> ELSE esc
      b1 == ReplaceSpNl(esc2)
      b2 == <<"bs", "NL">> \o b1
      b3 == IF b2[Len(b2)] = "NL" THEN b2 ELSE b2 \o <<"bs", "NL">>
  IN [q |-> q, triple |-> TRUE, body |-> b3]

Encode(s) == IF NeedsTriple(s) THEN TripleQuote(s) ELSE PyRepr(s)

(* ---------- the Python lexer on a literal ---------- *)
RECURSIVE Lex(_)
Lex(b) == IF b = <<>> THEN <<>>
          ELSE IF b[1] = "bs" THEN
               (IF Len(b) < 2 THEN <<"ERR">>
                ELSE LET e == b[2]
                         r == CASE e = "n" -> <<"nl">> [] e = "r" -> <<"cr">> [] e = "t" -> <<"tab">>
                                [] e = "X" -> <<"np">> [] e = "bs" -> <<"bs">> [] e = "sq" -> <<"sq">>
                                [] e = "dq" -> <<"dq">> [] e = "NL" -> <<>>
                                [] OTHER -> <<"bs", e>>            \* unknown escape keeps the backslash
                     IN r \o Lex(SubSeq(b, 3, Len(b))))
          ELSE (IF b[1] = "NL" THEN <<"nl">> ELSE <<b[1]>>) \o Lex(Tail(b))
\* the literal must be lexed as ONE token that ends exactly at its closing quote
ClosesEarly(b, q, triple) ==
  LET F[k \in 1..(Len(b) + 1)] ==
        IF k > Len(b) THEN FALSE
        ELSE IF b[k] = "bs" THEN (IF k + 2 <= Len(b) + 1 THEN F[k + 2] ELSE TRUE)
        ELSE IF b[k] = q /\ (~triple \/ (k + 2 <= Len(b) /\ b[k+1] = q /\ b[k+2] = q)) THEN TRUE
        ELSE IF triple /\ b[k] = q /\ k + 1 = Len(b) /\ b[k+1] = q THEN TRUE     \* ..qq + closing qqq closes one early
        ELSE IF triple /\ b[k] = q /\ k = Len(b) THEN TRUE                       \* ..q + closing qqq
        ELSE IF ~triple /\ b[k] = "NL" THEN TRUE                                 \* raw newline in a single-quoted literal
        ELSE F[k + 1]
  IN F[1]
WellFormed(l) == ~ClosesEarly(l.body, l.q, l.triple) /\ (l.triple \/ Count(l.body, "NL") = 0)

(* ---------- the formatter as environment ---------- *)
\* what black's docstring handling does to the value of a lone string statement: strips leading/trailing
\* blanks (and re-indents); an abstraction that is precise enough to tell "changed" from "unchanged"
Blank(c) == c \in {"sp", "tab", "nl"}
RECURSIVE LStrip(_)
LStrip(s) == IF s # <<>> /\ Blank(s[1]) THEN LStrip(Tail(s)) ELSE s
RECURSIVE RStrip(_)
RStrip(s) == IF s # <<>> /\ Blank(s[Len(s)]) THEN RStrip(SubSeq(s, 1, Len(s) - 1)) ELSE s
DocstringValue(s) == RStrip(LStrip(s))
\* value that is read back from the file: the formatter keeps the value, except for a lone string statement
ReadBack(s, lone) == IF lone THEN DocstringValue(Lex(Encode(s).body)) ELSE Lex(Encode(s).body)
=============================================================================
