------------------------------ MODULE ISFormat ------------------------------
(***************************************************************************)
(* When is a rewritten test file formatted as a whole, and with which      *)
(* options (C20; _rewrite_code.py:SourceFile.new_code, _format.py).        *)
(*                                                                         *)
(* A case c is a record                                                    *)
(*   clean   the file is formatter-clean before the rewrite (for the       *)
(*           options of ITS project)                                       *)
(*   fmtcmd  a format-command is configured                                *)
(*   opts    the [tool.black] options of the project (an abstract id;      *)
(*           0 = black's defaults)                                         *)
(*   cwd     where the session is started: "root" | "sub" | "outside"      *)
(*   loc     where the [tool.black] options are written relative to the    *)
(*           file: "own" (the pyproject.toml of its project), "outer" (one *)
(*           directory further up; the nearest pyproject.toml has no       *)
(*           [tool.black] section, black skips it), "gitstop" (further up, *)
(*           but the project directory holds a .git: black stops there and *)
(*           uses its defaults)                                            *)
(*   shape   how the generated value relates to the line limit             *)
(* The formatter is an environment: Fmt(text, opts) is idempotent and only *)
(* changes layout (measured, not assumed, by the harness).                 *)
(***************************************************************************)
EXTENDS Naturals, FiniteSets, TLC
CONSTANTS OptIds, FromFile,   \* FromFile: the options are looked up from the file's project (since fix F14)
          LookupLikeBlack     \* as coded (TRUE): black.find_pyproject_toml; design alternative: the nearest pyproject.toml

\* the options black itself would use for the file (the file is `clean` with respect to these)
EffOpts(c) == IF c.loc = "gitstop" THEN 0 ELSE c.opts
\* the options the tool formats with: black's own lookup (LookupLikeBlack), otherwise the nearest pyproject.toml
OptsUsed(c) == IF ~(FromFile \/ c.cwd # "outside") THEN 0
               ELSE IF LookupLikeBlack THEN EffOpts(c)
               ELSE (IF c.loc = "own" THEN c.opts ELSE 0)
\* is the file clean in the eyes of the tool (it compares the file with ITS formatting of it)
SeenClean(c) == c.clean /\ OptsUsed(c) = EffOpts(c)
\* whole-file formatting applies iff a format-command is set or the file is clean
Reformat(c) == c.fmtcmd \/ SeenClean(c)
\* after the rewrite: is the file clean for the options of its project?
\*   re-formatted with the right options -> clean; not re-formatted -> the inserted fragment was formatted on its
\*   own, the statement around it is not re-wrapped: clean only if the new value needs no re-wrapping
CleanAfter(c) == IF c.fmtcmd THEN c.clean            \* the command is the user's formatter: out of black's hands
                 ELSE IF Reformat(c) THEN OptsUsed(c) = EffOpts(c)
                 ELSE FALSE
\* layout outside the edited arguments is left alone iff the file is not re-formatted
OutsideUntouched(c) == ~Reformat(c)

(* C20 *)
CleanStaysClean(c) == (c.clean /\ ~c.fmtcmd) => CleanAfter(c)
UncleanNotReformatted(c) == (~c.clean /\ ~c.fmtcmd) => OutsideUntouched(c)
=============================================================================
