\* the write pipeline with one fault at any step boundary (as coded: AtomicWrite = FALSE, ParseInWrite = TRUE)
SPECIFICATION Spec
CONSTANTS
  Order <- OrderDef
  HasExt <- HasExtDef
  AtomicWrite = FALSE
  ParseInWrite = TRUE
INVARIANT Atomic
INVARIANT NoGarbage
INVARIANT NoDangling
INVARIANT PersistFirst
INVARIANT AlwaysPopped
INVARIANT Degrades
PROPERTY Completes
CHECK_DEADLOCK FALSE
