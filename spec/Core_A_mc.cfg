\* single site, all operations, one test: exhaustive check of the design-level properties
SPECIFICATION Spec
CONSTANTS
  NAtoms = 3
  Keys = {1, 2}
  SiteOps = {"eq", "le", "ge", "in", "dict", "none"}
  ChildOps = {"deq", "dle", "dget"}
  WrongOps = {"eq", "in"}
  ChgOK = TRUE
  HostileOK = FALSE
  NSites = 1
  NTests = 1
  MaxStmts = 2
  MaxRuns = 1
  MaxSrcLen = 2
  Mode = "mc"
  Stride = 1
  Offset = 0
  Fuel = 6
  AbortOK = FALSE
INVARIANT C07
INVARIANT C06
INVARIANT C05fixiff
INVARIANT C05fixrepairs
INVARIANT C05create
INVARIANT C05update
INVARIANT C05trim
INVARIANT C05trimkeeps
INVARIANT C04inert
INVARIANT C08all
INVARIANT C08same
INVARIANT C09
INVARIANT C14
INVARIANT C19
CHECK_DEADLOCK FALSE
