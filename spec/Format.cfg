\* whole-file formatting decision and options (C20)
SPECIFICATION Spec
CONSTANTS
  OptIds = {0, 1, 2, 3, 4, 5, 6}
  FromFile = TRUE
  LookupLikeBlack = TRUE
  Mode = "mc"
INVARIANT C20clean
INVARIANT C20unclean
INVARIANT Emit
CHECK_DEADLOCK FALSE
