\* configuration space of a session (C04)
SPECIFICATION Spec
CONSTANTS
  RepairedXdist = TRUE
  Mode = "mc"
  Stride = 1
  Offset = 0
  Small = FALSE
INVARIANT C04exact
INVARIANT C04quiet
INVARIANT C04review
INVARIANT C04external
INVARIANT EmitAll
CHECK_DEADLOCK FALSE
