\* as coded: every attempt starts with an empty change list
SPECIFICATION Spec
CONSTANTS
  K = 2
  Atoms = {0, 1}
  MaxCmp = 3
  ResetOnAttempt = TRUE
  Mode = "mc"
  Stride = 1
  Offset = 0
INVARIANT Completes
INVARIANT ChangesAreDiff
INVARIANT PartialIsPrefix
INVARIANT FixGivesFirstCompleted
INVARIANT Inert
INVARIANT Counted
INVARIANT NewIsFirstCompleted
INVARIANT Emit
PROPERTY Terminates
CHECK_DEADLOCK FALSE
