\* validation of recorded executions of generated programs against ISCore (trace file given by the harness)
SPECIFICATION TSpec
INVARIANT Verdict
CHECK_DEADLOCK FALSE
