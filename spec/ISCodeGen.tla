------------------------------ MODULE ISCodeGen ------------------------------
(***************************************************************************)
(* Generation of code for values (transition T15; _code_repr.py,           *)
(* _adapter/*.py:repr, _utils.py:value_to_token): which strategy produces  *)
(* the code for which type of leaf, what the code needs (imports), and how *)
(* the elements of sets are ordered.  The concrete text is the business of *)
(* CPython's repr and of the conformance runs; the specification fixes the *)
(* CASES: leaf type x container x operation x placement (C01) and set      *)
(* element class x iteration order x formatter (C16).                      *)
(***************************************************************************)
EXTENDS Naturals, Sequences, FiniteSets, TLC

Tags == {"int", "negint", "bigint", "bool", "none", "float", "negfloat", "inf", "nan", "complex", "str", "mlstr",
         "bytes", "enum", "flag", "flagcombo", "flag0", "type", "hasrepr", "dataclass", "dataclass_default",
         "dataclass_factory", "dataclass_norepr", "attrs", "pydantic", "namedtuple", "defaultdict", "external",
         \* a HasRepr value whose __repr__ embeds repr(child) of a child with customised code (an Enum member): the
         \* recorded string and the string computed when reading back must both use the code representation;
         \* a class with a handler registered by the user with @customize_repr
         "hasrepr_nested", "usercustom"}
Strategy(t) ==
  CASE t \in {"enum", "flag", "flagcombo", "flag0", "type", "usercustom"} -> "custom"          \* customize_repr registrations
    [] t \in {"dataclass", "dataclass_default", "dataclass_factory", "dataclass_norepr", "attrs", "pydantic",
              "namedtuple", "defaultdict"} -> "call"                                \* constructor-call adapters
    [] t \in {"hasrepr", "hasrepr_nested"} -> "hasrepr"                                                   \* repr is not Python: HasRepr(type, repr)
    [] t = "external" -> "external"                                                 \* outsource(...) -> external("hash*.sfx")
    [] OTHER -> "repr"
NeedsImport(t) == CASE Strategy(t) = "hasrepr" -> {"HasRepr"} [] Strategy(t) = "external" -> {"external"} [] OTHER -> {}
Orderable(t) == t \in {"int", "negint", "bigint", "bool", "float", "negfloat", "str", "mlstr", "bytes"}
Hashable(t) == t \notin {"dataclass", "dataclass_default", "dataclass_factory", "dataclass_norepr", "attrs", "pydantic",
                         "defaultdict", "hasrepr", "hasrepr_nested", "usercustom"}
\* leaf types for which the generated code is known NOT to read back (finding F15): repr(inf) = `inf` is no
\* expression, a Flag without members has an empty code, a field with repr=False is dropped, nan != nan
KnownGap(t) == t \in {"inf", "nan", "flag0", "dataclass_norepr"}

Containers == {"none", "list", "tuple1", "tuple", "dictval", "dictkey", "set", "frozenset", "nested", "dataclass_field"}
Ops == {"eq", "le", "ge", "in", "getitem"}
Placements == {"assert", "helper", "module", "loop"}
Case == [tag : Tags, cont : Containers, op : Ops, place : Placements]
Valid(c) == /\ (c.op \in {"le", "ge"} => (Orderable(c.tag) /\ c.cont \in {"none", "list", "tuple"}))
            /\ (c.cont \in {"dictkey", "set", "frozenset"} => Hashable(c.tag))
            /\ (c.tag = "external" => c.cont \in {"none", "list", "dictval"})
            /\ (c.place = "loop" => c.op \in {"le", "ge", "in", "eq"})
\* the design-level claim of C01: the code of every other case evaluates to a value for which the comparison holds,
\* provided the names it uses are importable - and the imports it needs are added
ReadsBack(c) == ~KnownGap(c.tag)
ImportsAdded(c) == NeedsImport(c.tag)          \* all drivers since fix F12

(* ---- ordering of set elements (C16) ---- *)
\* element classes: "total" (sorted() sorts them), "mixed" (sorted() raises TypeError -> sorted by their code),
\* "partial" (comparison is a partial order that never raises: frozensets, sets)
ElemClasses == {"total", "mixed", "partial"}
\* the order in which the elements are written, as a function of the iteration order `it` (a permutation id):
\*   PreSort = TRUE (since fix F9): the elements are first ordered by their code, which makes the input of the
\*   value sort independent of the iteration order
WrittenOrder(cls, it, PreSort) ==
  CASE cls = "total" -> "by-value"
    [] cls = "mixed" -> "by-code"
    [] cls = "partial" -> IF PreSort THEN "by-code-then-stable-value-sort" ELSE <<"depends-on-iteration", it>>
Deterministic(cls, PreSort) == \A i1, i2 \in 1..3 : WrittenOrder(cls, i1, PreSort) = WrittenOrder(cls, i2, PreSort)
=============================================================================
