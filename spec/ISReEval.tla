------------------------------ MODULE ISReEval ------------------------------
(***************************************************************************)
(* Re-evaluation of one `== snapshot(<container>)` call (transition T3 of  *)
(* DESIGN.md: _inline_snapshot.py:snapshot -> GenericValue._re_eval,       *)
(* _adapter/*:items / map, _unmanaged.py).  The call is executed several   *)
(* times in a session (helper function, loop, parametrised test).  Its     *)
(* argument is a display / constructor call with one expression per slot:  *)
(*   "lit"  a literal: the same value at every evaluation                  *)
(*   "dyn"  Is(x): the user's dynamic part - may have another value at     *)
(*          every evaluation, the stored wrapper takes the new value       *)
(*   "ref"  a reference to a mutable object (a nested list) that the test  *)
(*          may mutate IN PLACE between the evaluations - a hand-written   *)
(*          part whose value changes: a usage error, nothing is recorded   *)
(* One action per linearisation point: Evaluate (the call returns or       *)
(* raises UsageError), Compare (the == answers).  No flags are given: the  *)
(* answers are those of the plain value (C06), nothing is pending.         *)
(***************************************************************************)
EXTENDS Naturals, Sequences, FiniteSets, TLC

CONSTANTS NSlots, Atoms, MaxEvals
Slots == 1..NSlots
SlotKinds == {"lit", "dyn", "ref"}
LitAtom == 1                 \* the value of every literal slot
\* one evaluation: the values the slots evaluate to, and which slot (0 = none) of the compared value differs
Evals == [vals : [Slots -> Atoms], diff : 0..NSlots]
Next1(a) == IF a + 1 \in Atoms THEN a + 1 ELSE 0

VARIABLES kinds,     \* kind of every slot
          evs,       \* the evaluations of the session
          k,         \* index of the current evaluation
          pc,        \* "eval" | "cmp" | "done"
          base,      \* the managed values recorded by the FIRST evaluation (deep copy of the argument)
          cur,       \* the values the stored wrappers of the dynamic slots hold
          res        \* outcome per evaluation: "T" | "F" | "UE"
vars == <<kinds, evs, k, pc, base, cur, res>>

WellFormed(ks, es) == \A j \in DOMAIN es : \A s \in Slots : ks[s] = "lit" => es[j].vals[s] = LitAtom
Init == /\ kinds \in [Slots -> SlotKinds]
        /\ evs \in UNION {[1..m -> Evals] : m \in 1..MaxEvals} /\ WellFormed(kinds, evs)
        /\ k = 1 /\ pc = "eval" /\ base = evs[1].vals /\ cur = evs[1].vals /\ res = <<>>
E == evs[k]
Managed(s) == kinds[s] # "dyn"
\* the hand-written managed part evaluates to another value than the one recorded first
Changed == \E s \in Slots : Managed(s) /\ E.vals[s] # base[s]
Evaluate == /\ pc = "eval" /\ k <= Len(evs)
            /\ IF Changed
               THEN /\ res' = Append(res, "UE") /\ k' = k + 1 /\ pc' = IF k = Len(evs) THEN "done" ELSE "eval"
                    /\ UNCHANGED cur        \* (wrappers in front of the changed part may already hold the new value:
                                            \*  it is never observed, the next evaluation sets all of them again)
               ELSE /\ cur' = [s \in Slots |-> IF Managed(s) THEN cur[s] ELSE E.vals[s]]
                    /\ pc' = "cmp" /\ UNCHANGED <<res, k>>
            /\ UNCHANGED <<kinds, evs, base>>
\* the compared value: the values of this evaluation, except at slot `diff`
Cmp(s) == IF E.diff = s THEN Next1(E.vals[s]) ELSE E.vals[s]
Stored(s) == IF Managed(s) THEN base[s] ELSE cur[s]
Compare == /\ pc = "cmp"
           /\ res' = Append(res, IF \A s \in Slots : Stored(s) = Cmp(s) THEN "T" ELSE "F")
           /\ k' = k + 1 /\ pc' = IF k = Len(evs) THEN "done" ELSE "eval"
           /\ UNCHANGED <<kinds, evs, base, cur>>
Next == Evaluate \/ Compare
Spec == Init /\ [][Next]_vars /\ WF_vars(Next)

(* ---------------- what the properties say ---------------- *)
\* C06: without flags every comparison answers like the plain value of the argument AT THAT EVALUATION
Transparent == \A j \in DOMAIN res : res[j] # "UE" => (res[j] = "T") = (evs[j].diff = 0)
\* C14: a usage error exactly when a hand-written managed part has another value than at the first evaluation -
\* never because a dynamic part changed
UsageErrorIff == \A j \in DOMAIN res : (res[j] = "UE") = (\E s \in Slots : kinds[s] # "dyn" /\ evs[j].vals[s] # evs[1].vals[s])
\* C10: the dynamic parts are never reported: nothing is pending when every comparison held
Terminates == <>(pc = "done")
=============================================================================
