\* edits of all producers the code has; Producer is overridden per run ("script", "free"; "any" must fail)
SPECIFICATION Spec
CONSTANTS
  MaxN = 3
  MaxIns = 2
  Atoms = {0, 1}
  Mode = "mc"
  Producer = "free"
  KindSet = {"list", "tuple", "dict", "call"}
  Stride = 1
  Offset = 0
INVARIANT Holds
INVARIANT Emit
CHECK_DEADLOCK FALSE
