\* structural assignment, shape "call"
SPECIFICATION Spec
CONSTANTS
  Fields <- FieldsDef
  InsertByRemaining = FALSE
  DropUserDefault = FALSE
  NAtoms = 3
  Width = 3
  Shape = "call"
  Mode = "mc"
  Stride = 1
  TStride = 1
  Offset = 0
INVARIANT C02
INVARIANT C05
INVARIANT C08
INVARIANT C09
INVARIANT C10
INVARIANT C11
INVARIANT Emit
CHECK_DEADLOCK FALSE
