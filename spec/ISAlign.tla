------------------------------ MODULE ISAlign ------------------------------
(***************************************************************************)
(* Alignment of two sequences (src/inline_snapshot/_align.py).             *)
(*                                                                         *)
(* Two formulations:                                                       *)
(*  - the *relation* GoodScript(a, b, s): what C11 promises about the      *)
(*    edit script (valid, matches only equal elements, maximal number of   *)
(*    matches, the maximal equal prefix and suffix are matched);           *)
(*  - the *transcription* Align / NW / AddX of the algorithm in the code   *)
(*    (Needleman-Wunsch score matrix with Python's tuple maximum as        *)
(*    tie-break, prefix/suffix stripping, d^n i^n -> x^n).                 *)
(* MC_Align checks  GoodScript(a, b, Align(a, b))  for all bounded pairs.  *)
(* The elements are compared with an equality passed as operator, because  *)
(* the code compares old values with new values by Python's ==.            *)
(***************************************************************************)
EXTENDS Naturals, Sequences, FiniteSets

Rev(s) == [j \in DOMAIN s |-> s[Len(s) + 1 - j]]
Rep(c, n) == [j \in 1..n |-> c]
CountOf(s, S) == Cardinality({j \in DOMAIN s : s[j] \in S})

(* ---------------- the relation ---------------- *)
\* positions consumed in a (old) / b (new) before script position p
OldBefore(s, p) == CountOf(SubSeq(s, 1, p - 1), {"m", "x", "d"})
NewBefore(s, p) == CountOf(SubSeq(s, 1, p - 1), {"m", "x", "i"})
ValidScript(a, b, s, Eq(_, _)) ==
  /\ \A p \in DOMAIN s : s[p] \in {"m", "x", "d", "i"}
  /\ CountOf(s, {"m", "x", "d"}) = Len(a)
  /\ CountOf(s, {"m", "x", "i"}) = Len(b)
  /\ \A p \in DOMAIN s : s[p] = "m" => Eq(a[OldBefore(s, p) + 1], b[NewBefore(s, p) + 1])
\* length of a longest common subsequence
LCS(a, b, Eq(_, _)) ==
  LET M[i \in 0..Len(a), j \in 0..Len(b)] ==
        IF i = 0 \/ j = 0 THEN 0
        ELSE IF Eq(a[i], b[j]) THEN M[i-1, j-1] + 1
        ELSE IF M[i-1, j] >= M[i, j-1] THEN M[i-1, j] ELSE M[i, j-1]
  IN M[Len(a), Len(b)]
\* length of the maximal common prefix (the third argument is kept for readability: counting starts at 0)
PrefixLen(a, b, k0, Eq(_, _)) ==
  LET mn == IF Len(a) <= Len(b) THEN Len(a) ELSE Len(b) IN
  CHOOSE k \in 0..mn : (\A j \in 1..k : Eq(a[j], b[j])) /\ (k = mn \/ ~Eq(a[k+1], b[k+1]))
GoodScript(a, b, s, Eq(_, _)) ==
  /\ ValidScript(a, b, s, Eq)
  /\ CountOf(s, {"m"}) = LCS(a, b, Eq)                              \* as many survivors as possible
  /\ LET pl == PrefixLen(a, b, 0, Eq) IN \A p \in 1..pl : s[p] = "m"   \* the equal prefix survives
  /\ LET pl == PrefixLen(a, b, 0, Eq)
         ra == SubSeq(a, pl + 1, Len(a)) rb == SubSeq(b, pl + 1, Len(b))
         sl == IF pl = Len(a) /\ pl = Len(b) THEN 0 ELSE PrefixLen(Rev(ra), Rev(rb), 0, Eq)
     IN \A p \in (Len(s) - sl + 1)..Len(s) : s[p] = "m"               \* the equal suffix survives

(* ---------------- the transcription ---------------- *)
\* python's max on (score, letter) tuples; letters ordered d < i < m
Rank(c) == CASE c = "d" -> 1 [] c = "i" -> 2 [] c = "m" -> 3 [] c = "e" -> 0
Max2(p, q) == IF p[1] > q[1] \/ (p[1] = q[1] /\ Rank(p[2]) >= Rank(q[2])) THEN p ELSE q
NW(a, b, Eq(_, _)) ==
  LET la == Len(a) lb == Len(b)
      M[i \in 0..la, j \in 0..lb] ==
         IF i = 0 THEN (IF j = 0 THEN <<0, "e">> ELSE <<0, "i">>)
         ELSE IF j = 0 THEN <<0, "d">>
         ELSE LET base == Max2(<<M[i, j-1][1], "i">>, <<M[i-1, j][1], "d">>) IN
              IF Eq(a[i], b[j]) THEN Max2(base, <<M[i-1, j-1][1] + 1, "m">>) ELSE base
      Back[i \in 0..la, j \in 0..lb] ==
         LET d == M[i, j][2] IN
         IF d = "e" THEN <<>>
         ELSE IF d = "m" THEN Append(Back[i-1, j-1], "m")
         ELSE IF d = "i" THEN Append(Back[i, j-1], "i")
         ELSE Append(Back[i-1, j], "d")
  IN Back[la, lb]
Align(a, b, Eq(_, _)) ==
  LET st == PrefixLen(a, b, 0, Eq) IN
  IF st = Len(a) /\ st = Len(b) THEN Rep("m", st)
  ELSE LET ra == SubSeq(a, st+1, Len(a)) rb == SubSeq(b, st+1, Len(b))
           en == PrefixLen(Rev(ra), Rev(rb), 0, Eq)
       IN Rep("m", st) \o NW(SubSeq(ra, 1, Len(ra) - en), SubSeq(rb, 1, Len(rb) - en), Eq) \o Rep("m", en)
\* add_x: a run of d immediately followed by a run of i of the same length becomes x
RECURSIVE RunLen(_, _, _)
RunLen(s, k, c) == IF k <= Len(s) /\ s[k] = c THEN 1 + RunLen(s, k+1, c) ELSE 0
RECURSIVE AddX(_, _)
AddX(s, k) ==
  IF k > Len(s) THEN <<>>
  ELSE LET c == s[k] n == RunLen(s, k, c) IN
       IF c = "d" /\ k + n <= Len(s) /\ s[k+n] = "i" /\ RunLen(s, k+n, "i") = n
       THEN Rep("x", n) \o AddX(s, k + 2*n)
       ELSE Rep(c, n) \o AddX(s, k + n)
Script(a, b, Eq(_, _)) == AddX(Align(a, b, Eq), 1)
=============================================================================
