------------------------------- MODULE ISCore -------------------------------
(***************************************************************************)
(* The per-call-site machine of inline-snapshot as pure operators          *)
(* (transitions T3/T4/T6/T7/T8 of DESIGN.md, section 1).                   *)
(*                                                                         *)
(* A *site* is one textual snapshot(...) call.  Its persistent state is    *)
(* the source argument `src`; its in-session state `st` is built by the    *)
(* comparisons executed by the tests.  A *session* runs every test of a    *)
(* program, then classifies the pending changes per category and applies   *)
(* the approved ones.                                                      *)
(*                                                                         *)
(* Code anchors (src/inline_snapshot):                                     *)
(*   Step      _snapshot/{undecided,eq,min_max,collection,dict}_value.py   *)
(*             generic_value.py:_return                                    *)
(*   Pending   *_value.py:_get_changes, _inline_snapshot.py:_changes       *)
(*   NewSrc    _change.py:apply_all restricted to the approved categories  *)
(*   TestFail  pytest_plugin.py:snapshot_check (counters per test)         *)
(***************************************************************************)
EXTENDS Naturals, Sequences, FiniteSets, TLC

Cats == {"create", "fix", "trim", "update"}
ScalarOps == {"eq", "le", "ge"}
\* "none": the snapshot is evaluated but never used in an operation
AllOps == ScalarOps \cup {"in", "dict", "none"}

Rng(s) == {s[j] : j \in DOMAIN s}
SeqUpTo(S, n) == UNION {[1..m -> S] : m \in 0..n}
NoDupBy(s, f(_)) == \A a, b \in DOMAIN s : a # b => f(s[a]) # f(s[b])

(***************************************************************************)
(* Source arguments.  src = [def, e]; e = sequence of entries              *)
(*   [k, v, canon]: k = 0 except in dict sources; v = atom; canon = the    *)
(*   entry's text is exactly what the generator would write (otherwise a   *)
(*   hand-written expression with the same value, e.g. 0+5).               *)
(* Scalar sources have exactly one entry; "in" sources are lists of        *)
(* distinct atoms; dict sources have distinct keys.                        *)
(***************************************************************************)
None == [def |-> FALSE, e |-> <<>>]
Some(e) == [def |-> TRUE, e |-> e]
ValsOf(e) == [j \in DOMAIN e |-> e[j].v]
KeysOf(e) == [j \in DOMAIN e |-> e[j].k]
HasKey(e, k) == \E j \in DOMAIN e : e[j].k = k
IdxOfKey(e, k) == CHOOSE j \in DOMAIN e : e[j].k = k
CanonE(s) == [j \in DOMAIN s |-> [k |-> s[j].k, v |-> s[j].v, canon |-> TRUE]]

(***************************************************************************)
(* Comparison semantics on plain values                                    *)
(***************************************************************************)
Better(o, a, b) == IF o = "le" THEN a >= b ELSE a <= b     \* a is at least as loose a bound as b
HoldsScalar(o, old, x) == CASE o = "eq" -> old = x
                            [] o = "le" -> x <= old
                            [] o = "ge" -> x >= old

\* the comparison result is taken from the new value instead of the old one
Ignore(U, olddef) == "fix" \in U \/ "update" \in U \/ "create" \in U \/ ~olddef

(***************************************************************************)
(* In-session site state                                                   *)
(*   kind : "undecided" or the operation that fixed it                     *)
(*   new  : aggregated entries [k, v, ck]; ck = kind of a dict child       *)
(*          ("-" for other sites, "u" for a child that was only accessed)  *)
(*   ev   : the snapshot() call has been evaluated in this session (only    *)
(*          evaluated calls are known to the tool at session end)          *)
(***************************************************************************)
St0 == [kind |-> "undecided", new |-> <<>>, ev |-> FALSE]
StEv == [St0 EXCEPT !.ev = TRUE]      \* evaluated (e.g. at import of the module), not yet operated

\* result of one scalar operation `o` with value x against (olddef, oldv) given the aggregate (hasnew, newv)
\*   returns [nv, r, out]: new aggregate, truth against the old value, answer given to the test
ScalarStep(o, U, od, ov, hasnew, nv, x) ==
  IF o = "eq" THEN
     LET n == IF hasnew THEN nv ELSE x
         r == od /\ ov = x
     IN [nv |-> n, r |-> r, out |-> IF Ignore(U, od) THEN n = x ELSE r]
  ELSE
     LET n == IF ~hasnew \/ ~Better(o, nv, x) THEN x ELSE nv
         r == ~od \/ Better(o, ov, x)
     IN [nv |-> n, r |-> r, out |-> IF Ignore(U, od) THEN TRUE ELSE r]

B2S(b) == IF b THEN "T" ELSE "F"

(***************************************************************************)
(* Step(src, st, U, s): one statement s = [op, k, x] on a site.            *)
(* Returns [st, res, miss, inc]: res in {"T","F","TE","UE","-"}; miss/inc = *)
(* increments of the per-test counters.                                    *)
(***************************************************************************)
Step(src, st, U, s) ==
  LET od == src.def
      ov == ValsOf(src.e)
      o  == s.op
  IN
  IF o = "none" THEN [st |-> [st EXCEPT !.ev = TRUE], res |-> "-", miss |-> 0, inc |-> 0]
  ELSE IF o = "raise" THEN
     \* the test body raises an exception of its own: no site is touched
     [st |-> st, res |-> "EX", miss |-> 0, inc |-> 0]
  ELSE IF o \in {"eqbad", "inbad", "eqnc", "innc"} THEN
     \* the compared value cannot be copied faithfully: its deep copy is not equal to it (a usage error) or
     \* copy.deepcopy refuses it ("nc": a TypeError); nothing is recorded - never the live object - the operation
     \* still fixes the kind of the site (generic_value.py:clone)
     LET k == IF o \in {"eqbad", "eqnc"} THEN "eq" ELSE "in"
         err == IF o \in {"eqnc", "innc"} THEN "TE" ELSE "UE" IN
     IF st.kind # "undecided" /\ st.kind # k
     THEN [st |-> [st EXCEPT !.ev = TRUE], res |-> "TE", miss |-> 0, inc |-> 0]
     ELSE IF o \in {"eqbad", "eqnc"} /\ st.new # <<>>
          \* an == site copies only the first value it is compared with; later it just answers (the value is
          \* equal to nothing)
          THEN [st |-> st, res |-> "F", miss |-> IF src.def THEN 0 ELSE 1, inc |-> 1]
          ELSE [st |-> [kind |-> k, new |-> st.new, ev |-> TRUE], res |-> err, miss |-> IF src.def THEN 0 ELSE 1, inc |-> 0]
  ELSE IF o \in {"lebot", "gebot"} THEN
     \* a bound comparison with a value of an incomparable type: the comparison raises TypeError; the first
     \* operation still fixes the kind of the site, nothing is recorded (min_max_value.py)
     LET k == IF o = "lebot" THEN "le" ELSE "ge" IN
     IF st.kind # "undecided" /\ st.kind # k
     THEN [st |-> [st EXCEPT !.ev = TRUE], res |-> "TE", miss |-> 0, inc |-> 0]
     \* (programs use it only on sites that have a value: an empty snapshot accepts a first value of any type)
     ELSE [st |-> [kind |-> k, new |-> st.new, ev |-> TRUE], res |-> "TE", miss |-> 0, inc |-> 0]
  ELSE IF o = "chg" THEN
     \* the call is evaluated again and its hand-written argument now has another value: a usage error,
     \* nothing is recorded (generic_value.py:_re_eval); on a first evaluation it simply is the value
     \* (only an argument with a hand-written part can change)
     IF st.ev /\ src.def /\ \E j \in DOMAIN src.e : ~src.e[j].canon
     THEN [st |-> st, res |-> "UE", miss |-> 0, inc |-> 0]
     ELSE [st |-> [st EXCEPT !.ev = TRUE], res |-> "-", miss |-> 0, inc |-> 0]
  ELSE IF st.kind # "undecided" /\ st.kind # (IF o \in {"deq", "dle", "dge", "dget"} THEN "dict" ELSE o)
       THEN [st |-> [st EXCEPT !.ev = TRUE], res |-> "TE", miss |-> 0, inc |-> 0]
  ELSE IF o \in ScalarOps THEN
     LET hasnew == st.new # <<>>
         q == ScalarStep(o, U, od, IF od THEN ov[1] ELSE 0, hasnew, IF hasnew THEN st.new[1].v ELSE 0, s.x)
     IN [st |-> [kind |-> o, new |-> <<[k |-> 0, v |-> q.nv, ck |-> "-"]>>, ev |-> TRUE],
         res |-> B2S(q.out), miss |-> IF od THEN 0 ELSE 1, inc |-> IF q.r THEN 0 ELSE 1]
  ELSE IF o = "in" THEN
     LET n == IF s.x \in Rng(ValsOf(st.new)) THEN st.new ELSE Append(st.new, [k |-> 0, v |-> s.x, ck |-> "-"])
         r == ~od \/ s.x \in Rng(ov)
     IN [st |-> [kind |-> o, new |-> n, ev |-> TRUE], res |-> B2S(IF Ignore(U, od) THEN TRUE ELSE r),
         miss |-> IF od THEN 0 ELSE 1, inc |-> IF r THEN 0 ELSE 1]
  ELSE \* dict site: s.op in {"deq","dle","dge"} = child operation on key s.k; "dget" = snapshot[s.k] is only
       \* accessed: the child exists (kind "u", undecided) but is not used in an operation
     LET co == CASE o = "deq" -> "eq" [] o = "dle" -> "le" [] o = "dge" -> "ge" [] o = "dget" -> "u"
         known == HasKey(st.new, s.k)
         cck == IF known THEN st.new[IdxOfKey(st.new, s.k)].ck ELSE "u"
         cod == od /\ HasKey(src.e, s.k)                  \* the child has an old value
         cov == IF cod THEN src.e[IdxOfKey(src.e, s.k)].v ELSE 0
         m1 == IF ~od /\ ~known THEN 1 ELSE 0             \* parent is missing (counted at child creation)
     IN IF o = "dget"
        THEN [st |-> [kind |-> "dict", ev |-> TRUE,
                      new |-> IF known THEN st.new ELSE Append(st.new, [k |-> s.k, v |-> 0, ck |-> "u"])],
              res |-> "-", miss |-> m1, inc |-> 0]
        ELSE IF cck \notin {co, "u"}
        THEN [st |-> st, res |-> "TE", miss |-> 0, inc |-> 0]
        ELSE
          LET hasn == known /\ cck # "u"
              q == ScalarStep(co, U, cod, cov, hasn, IF hasn THEN st.new[IdxOfKey(st.new, s.k)].v ELSE 0, s.x)
              ent == [k |-> s.k, v |-> q.nv, ck |-> co]
              n == IF known THEN [st.new EXCEPT ![IdxOfKey(st.new, s.k)] = ent] ELSE Append(st.new, ent)
          IN [st |-> [kind |-> "dict", new |-> n, ev |-> TRUE], res |-> B2S(q.out),
              miss |-> m1 + (IF cod THEN 0 ELSE 1), inc |-> IF q.r THEN 0 ELSE 1]

(***************************************************************************)
(* Pending categories of a site at session end                             *)
(***************************************************************************)
ScalarPending(o, olde, nv) ==
  IF o = "u" THEN (IF ~olde.canon THEN {"update"} ELSE {})       \* accessed, never operated: only the representation
  ELSE IF o = "eq" THEN (IF olde.v # nv THEN {"fix"} ELSE IF ~olde.canon THEN {"update"} ELSE {})
  ELSE IF ~Better(o, olde.v, nv) THEN {"fix"}
  ELSE IF ~Better(o, nv, olde.v) THEN {"trim"}
  ELSE IF ~olde.canon THEN {"update"} ELSE {}

Pending(src, st) ==
  IF ~st.ev THEN {}
  ELSE IF st.kind = "undecided" THEN
      \* evaluated, never operated: only the representation can be updated
      IF src.def /\ \E j \in DOMAIN src.e : ~src.e[j].canon THEN {"update"} ELSE {}
  ELSE IF st.kind \in ScalarOps \cup {"in"} /\ st.new = <<>> THEN {}      \* every comparison raised: nothing was recorded
  ELSE IF ~src.def THEN {"create"}
  ELSE LET ov == ValsOf(src.e) nv == ValsOf(st.new) IN
  CASE st.kind \in ScalarOps -> ScalarPending(st.kind, src.e[1], nv[1])
    [] st.kind = "in" ->
         (IF \E j \in DOMAIN ov : ov[j] \notin Rng(nv) THEN {"trim"} ELSE {})
         \cup (IF \E j \in DOMAIN src.e : src.e[j].v \in Rng(nv) /\ ~src.e[j].canon THEN {"update"} ELSE {})
         \cup (IF \E j \in DOMAIN nv : nv[j] \notin Rng(ov) THEN {"fix"} ELSE {})
    [] st.kind = "dict" ->
         (IF \E j \in DOMAIN src.e : ~HasKey(st.new, src.e[j].k) THEN {"trim"} ELSE {})
         \cup (IF \E j \in DOMAIN st.new : ~HasKey(src.e, st.new[j].k) /\ st.new[j].ck # "u" THEN {"create"} ELSE {})
         \cup UNION {ScalarPending(st.new[IdxOfKey(st.new, src.e[j].k)].ck, src.e[j],
                                   st.new[IdxOfKey(st.new, src.e[j].k)].v)
                       : j \in {i \in DOMAIN src.e : HasKey(st.new, src.e[i].k)}}

(***************************************************************************)
(* The source after applying exactly the pending changes whose category    *)
(* is in A                                                                 *)
(***************************************************************************)
Strip(s) == [j \in DOMAIN s |-> [k |-> s[j].k, v |-> s[j].v]]
NewSrc(src, st, A) ==
  IF ~st.ev THEN src
  ELSE IF st.kind = "undecided" THEN
      (IF src.def /\ "update" \in A THEN Some(CanonE(src.e)) ELSE src)
  ELSE IF st.kind \in ScalarOps \cup {"in"} /\ st.new = <<>> THEN src
  ELSE IF ~src.def THEN (IF "create" \in A THEN Some(CanonE(SelectSeq(st.new, LAMBDA c : c.ck # "u"))) ELSE src)
  ELSE CASE st.kind \in ScalarOps -> IF Pending(src, st) \cap A # {} THEN Some(CanonE(st.new)) ELSE src
    [] st.kind = "in" ->
         LET nv == ValsOf(st.new) ov == ValsOf(src.e)
             keep(e) == ~("trim" \in A /\ e.v \notin Rng(nv))
             kept == SelectSeq(src.e, keep)
             upd == [j \in DOMAIN kept |-> IF "update" \in A /\ kept[j].v \in Rng(nv)
                                           THEN [kept[j] EXCEPT !.canon = TRUE] ELSE kept[j]]
             isnew(e) == e.v \notin Rng(ov)
             add == IF "fix" \in A THEN SelectSeq(st.new, isnew) ELSE <<>>
         IN Some(upd \o CanonE(add))
    [] st.kind = "dict" ->
         LET keep(e) == ~("trim" \in A /\ ~HasKey(st.new, e.k))
             kept == SelectSeq(src.e, keep)
             ch(e) == IF ~HasKey(st.new, e.k) THEN e
                      ELSE LET c == st.new[IdxOfKey(st.new, e.k)] IN
                           IF ScalarPending(c.ck, e, c.v) \cap A # {}
                           THEN [k |-> e.k, v |-> IF c.ck = "u" THEN e.v ELSE c.v, canon |-> TRUE] ELSE e
             upd == [j \in DOMAIN kept |-> ch(kept[j])]
             isnew(e) == ~HasKey(src.e, e.k) /\ e.ck # "u"
             add == IF "create" \in A THEN SelectSeq(st.new, isnew) ELSE <<>>
         IN Some(upd \o CanonE(add))

(***************************************************************************)
(* Programs.  A program is a sequence of tests; a test is a sequence of    *)
(* statements [site, assert, op, k, x].  `assert` = the result is          *)
(* asserted (a false result aborts the rest of the test, as does a         *)
(* TypeError); otherwise the result is only recorded.                      *)
(***************************************************************************)
\* run one test: tr = [sts, miss, inc, aborted, res]
RECURSIVE RunTest(_, _, _, _, _)
RunTest(srcs, U, test, j, tr) ==
  IF j > Len(test) \/ tr.aborted THEN tr
  ELSE LET s == test[j]
           q == Step(srcs[s.site], tr.sts[s.site], U, s)
       IN RunTest(srcs, U, test, j + 1,
            [sts |-> [tr.sts EXCEPT ![s.site] = q.st],
             miss |-> tr.miss + q.miss, inc |-> tr.inc + q.inc,
             aborted |-> q.res \in {"TE", "UE", "EX"} \/ (s.assert /\ q.res = "F"),
             res |-> Append(tr.res, q.res)])

\* run all tests: returns [sts, tests] where tests[t] = [res, miss, inc, aborted, failed]
RECURSIVE RunTests(_, _, _, _, _, _)
RunTests(srcs, U, prog, t, sts, acc) ==
  IF t > Len(prog) THEN [sts |-> sts, tests |-> acc]
  ELSE LET tr == RunTest(srcs, U, prog[t], 1, [sts |-> sts, miss |-> 0, inc |-> 0, aborted |-> FALSE, res |-> <<>>])
       IN RunTests(srcs, U, prog, t + 1, tr.sts,
             Append(acc, [res |-> tr.res, miss |-> tr.miss, inc |-> tr.inc, aborted |-> tr.aborted,
                          failed |-> tr.aborted \/ tr.miss > 0 \/ tr.inc > 0]))

(***************************************************************************)
(* Session(srcs, prog, U, A): U = flags that influence the comparisons,    *)
(* A = categories that are applied.  Plain category flags: U = A.  Review  *)
(* mode: U = Cats, A = flags + categories answered `y`.                    *)
(***************************************************************************)
SessionE(srcs, prog, U, A, atImport) ==
  LET r == RunTests(srcs, U, prog, 1, [i \in DOMAIN srcs |-> IF i \in atImport THEN StEv ELSE St0], <<>>)
  IN [sts |-> r.sts, tests |-> r.tests,
      pending |-> [i \in DOMAIN srcs |-> Pending(srcs[i], r.sts[i])],
      srcs |-> [i \in DOMAIN srcs |-> NewSrc(srcs[i], r.sts[i], A)],
      rcfail |-> \E t \in DOMAIN r.tests : r.tests[t].failed]
Session(srcs, prog, U, A) == SessionE(srcs, prog, U, A, {})
Run(srcs, prog, F) == Session(srcs, prog, F, F)
AllPending(R) == UNION {R.pending[i] : i \in DOMAIN R.pending}
=============================================================================
