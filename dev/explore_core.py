"""development helper: emit core cases, replay, and print mismatch classes with one example each"""
import sys, time, json, collections
sys.path.insert(0, '/verif')
from harness import core_replay, pool, tlc
cfg = sys.argv[1] if len(sys.argv) > 1 else "Core_A_emit.cfg"
stride = int(sys.argv[2]) if len(sys.argv) > 2 else 8
keep = int(sys.argv[3]) if len(sys.argv) > 3 else 20
driver = sys.argv[4] if len(sys.argv) > 4 else None
res = tlc.run_tlc("MC_Core", cfg, overrides={"Stride": stride, "Offset": 0})
runs = core_replay.load_runs(res.out_dir, seed=1, keep_every=keep)
tlc.cleanup(res)
print(len(runs), "runs")
if driver == "session":
    from harness import session_driver; session_driver.preload()
t = time.time()
out = pool.parallel_map(core_replay._worker, [(c, 1, driver) for c in pool.chunks(runs, 40 if not driver else 8)])
print("%.1fs" % (time.time() - t))
cnt = collections.Counter(); ex = {}
for chunk in out:
    for r in chunk:
        if 'error' in r:
            cnt[('ERROR',)] += 1; ex.setdefault(('ERROR',), (r['error'], '', '')); continue
        for m in r['mism']:
            k = (m['clause'], tuple(m['ops']), tuple(m['props']))
            cnt[k] += 1
            ex.setdefault(k, (m, r['text'], r['new']))
for k, v in sorted(cnt.items(), key=str): print(k, v)
for k, (m, t, n) in ex.items():
    print('=====', k); print(json.dumps(m)[:900]); print(t); print('--- new'); print(n)
