#!/bin/sh
# every stored seeded change against the first check that its meta.json names, for the given VERIF_SEED values
for s in "$@"; do
  for d in /verif/seeded/C*; do
    name=$(basename $d)
    checks=$(python3 -c "import json; print(json.load(open('$d/meta.json'))['detected_by'][0])")
    echo "seed=$s $name -> $checks: $(VERIF_SEED=$s /verif/dev/try_seed.sh $d/patch.diff $checks | tr '\n' ' ')"
  done
done
