#!/bin/sh
# every stored seeded change against its owning check, for the given VERIF_SEED values
for s in "$@"; do
  for d in /verif/seeded/C*; do
    id=$(basename $d)
    echo "seed=$s $id: $(VERIF_SEED=$s /verif/dev/try_seed.sh $d/patch.diff $id | tr '\n' ' ')"
  done
done
