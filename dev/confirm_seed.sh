#!/bin/sh
# usage: dev/confirm_seed.sh <ID>  - confirm a stored seeded change in a scratch worktree: baseline 478/478 with the
# patch, demonstration fails with it and passes without it; the worktree is removed afterwards
ID=$1; WT=/tmp/seed_$ID
git -C /repo worktree add -q --detach $WT HEAD || exit 2
git -C $WT apply /verif/seeded/$ID/patch.diff || { git -C /repo worktree remove --force $WT; exit 2; }
mkdir -p $WT/_seed && cp /verif/seeded/$ID/demo*.py $WT/_seed/
DEMO=$(ls $WT/_seed/demo*.py | head -1)
B=$(/verif/dev/run_baseline.py $WT | head -1)
(cd /tmp && PYTHONPATH=$WT/src timeout 600 /venv/bin/python $DEMO >/dev/null 2>&1); W=$?
git -C $WT checkout -- src
(cd /tmp && PYTHONPATH=$WT/src timeout 600 /venv/bin/python $DEMO >/dev/null 2>&1); O=$?
git -C /repo worktree remove --force $WT
echo "$ID: $B | demo with patch rc=$W | demo without patch rc=$O"
