import sys, time, json, collections
sys.path.insert(0, '/verif')
from harness import external_replay as er, pool, tlc, session_driver
num = int(sys.argv[1]) if len(sys.argv) > 1 else 20
limit = int(sys.argv[2]) if len(sys.argv) > 2 else 200
collide = len(sys.argv) > 3 and sys.argv[3] == "collide"
res = tlc.run_tlc("MC_External", "External_sim.cfg", workers=1, simulate="num=%d" % num, depth=7, seed=7, timeout=300,
                  overrides={"Collide": collide})
hs = er.load_histories(res.out_dir, 1, limit)
tlc.cleanup(res)
print(len(hs), "histories", "tlc %.1fs" % res.wall_s)
session_driver.preload()
t = time.time()
out = pool.parallel_map(er._worker, [(c, 1, collide) for c in pool.chunks(hs, 3)])
print("%.1fs" % (time.time() - t))
cnt = collections.Counter(); ex = {}
for b in out:
    for r in b:
        if "error" in r: cnt["ERROR"] += 1; ex.setdefault("ERROR", r); continue
        for m in r["mism"]:
            k = m["clause"]; cnt[k] += 1; ex.setdefault(k, (m, r["info"], r["id"]))
for k, v in sorted(cnt.items(), key=str): print(k, v)
byid = {h["id"]: h for h in hs}
for k, m in list(ex.items())[:8]:
    print("=====", k); print(json.dumps(m, indent=1)[:2500])
    if k != "ERROR": print(json.dumps([{x: s[x] for x in s if x not in ("post", "pruned")} for s in byid[m[2]]["hist"]]))
