import sys, time, json, collections
sys.path.insert(0, '/verif')
from harness import config_replay as cr, pool, tlc, session_driver
stride = int(sys.argv[1]) if len(sys.argv) > 1 else 400
res = tlc.run_tlc("MC_Config", "Config.cfg", overrides={"Mode": "emit", "Stride": stride, "Offset": 0}, timeout=120)
cases = cr.load_cases(res.out_dir, 1)
tlc.cleanup(res)
print(len(cases), "configurations", "tlc %.1fs" % res.wall_s)
session_driver.preload()
t = time.time()
out = pool.parallel_map(cr._worker, [(c, 1) for c in pool.chunks(cases, 6)])
print("%.1fs" % (time.time() - t))
cnt = collections.Counter(); ex = {}
for b in out:
    for r in b:
        if "error" in r: cnt["ERROR"] += 1; ex.setdefault("ERROR", r); continue
        for m in r["mism"]:
            k = m["clause"]; cnt[k] += 1; ex.setdefault(k, (m, r["info"]))
for k, v in sorted(cnt.items(), key=str): print(k, v)
for k, m in list(ex.items())[:12]: print("=====", k); print(json.dumps(m, indent=1)[:3000])
