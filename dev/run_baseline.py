#!/venv/bin/python
"""usage: run_baseline.py <worktree>  - runs the repository's test suite of that worktree (its own src/ on
PYTHONPATH) and reports whether all 478 stable baseline tests still pass."""
import json, os, subprocess, sys, tempfile
import xml.etree.ElementTree as ET
wt = os.path.abspath(sys.argv[1])
base = json.load(open("/root/.vp/BASELINE.json"))
out = tempfile.mktemp(suffix=".xml")
env = dict(os.environ, PYTHONPATH=wt + "/src", PYTHONDONTWRITEBYTECODE="1")
p = subprocess.run(["/venv/bin/python", "-m", "pytest", "-q", "-p", "no:cacheprovider", "--timeout=900", "-n", "6",
                    "--continue-on-collection-errors", "--junitxml=" + out], cwd=wt, env=env, capture_output=True, text=True)
passed = set()
for tc in ET.parse(out).getroot().iter("testcase"):
    if not any(c.tag in ("failure", "error", "skipped") for c in tc):
        passed.add("%s::%s" % (tc.get("classname"), tc.get("name")))
os.unlink(out)
missing = [t for t in base["stable_pass"] if t not in passed]
print("stable baseline tests passed: %d of %d" % (len(base["stable_pass"]) - len(missing), len(base["stable_pass"])))
for t in missing[:30]:
    print("  NOT PASSED:", t)
sys.exit(1 if missing else 0)
