"""development helper: emit structural-assignment cases for one shape, replay, print mismatch classes"""
import sys, time, json, collections
sys.path.insert(0, '/verif')
from harness import assign_replay, pool, tlc
shape = sys.argv[1] if len(sys.argv) > 1 else "seq"
tstride = int(sys.argv[2]) if len(sys.argv) > 2 else 20
stride = int(sys.argv[3]) if len(sys.argv) > 3 else 4
keep = int(sys.argv[4]) if len(sys.argv) > 4 else 1
text = "\n".join(l for l in (tlc.SPEC_DIR / ("Assign_%s.cfg" % shape)).read_text().splitlines() if not l.startswith("INVARIANT C"))
text = tlc.derive_cfg(text, {"Mode": "emit", "TStride": tstride, "Stride": stride, "Offset": 1})
res = tlc.run_tlc("MC_Assign", "Assign_%s.cfg" % shape, extra_files={"run.cfg": text})
print("tlc %.1fs" % res.wall_s)
cases = assign_replay.load_cases(res.out_dir, seed=1, keep_every=keep)
tlc.cleanup(res)
print(len(cases), "cases")
t = time.time()
out = pool.parallel_map(assign_replay._worker, [(c, 1) for c in pool.chunks(cases, 40)])
print("%.1fs" % (time.time() - t))
cnt = collections.Counter(); ex = {}
for chunk in out:
    for r in chunk:
        if 'error' in r:
            cnt[('ERROR',)] += 1; ex.setdefault(('ERROR',), ({"e": r['error']}, '', '')); continue
        for m in r['mism']:
            k = (m['clause'], tuple(m['props']), tuple(m['A']))
            cnt[k] += 1
            ex.setdefault((m['clause'], tuple(m['props'])), (m, r['text'], r['new']))
for k, v in sorted(cnt.items(), key=str): print(k, v)
for k, (m, t, n) in ex.items():
    print('=====', k); print(json.dumps(m)[:1200]); print(t); print('--- new'); print(n)
print("=========== by class kind")
c2 = collections.Counter(); ex2 = {}
for chunk in out:
    for r in chunk:
        for m in r.get('mism', []):
            k = (m['clause'], r['info']['class_kind'], m['detail'].get('positional') if isinstance(m['detail'], dict) else None)
            c2[k] += 1
            ex2.setdefault(k, (m, r['text'], r['new']))
for k, v in sorted(c2.items(), key=str): print(k, v)
if len(sys.argv) > 5:
    for k, (m, t, n) in ex2.items():
        if sys.argv[5] in str(k):
            print('=====', k); print(json.dumps(m)[:800]); print(t[t.index('def test_a'):]); print('--- new'); print(n[n.index('def test_a'):] if n else n)
