#!/bin/sh
# usage: dev/try_seed.sh <patch.diff> <check ids...>   - apply a seeded change to /repo, run checks, undo
# (the evidence files of the checks are saved and restored: evidence must come from the unchanged tree)
P=$1; shift
if [ -n "$(git -C /repo status --porcelain)" ]; then echo "uncommitted changes in /repo - commit them first"; exit 2; fi
rm -rf /tmp/verif_ev_backup && cp -r /verif/evidence /tmp/verif_ev_backup
git -C /repo apply "$P" || exit 2
for c in "$@"; do
  /verif/bin/check $c > /tmp/verif_try_seed.out 2>&1
  grep -v "^VIOLATION\|^KNOWN" /tmp/verif_try_seed.out | tail -1
  grep -c "^VIOLATION" /tmp/verif_try_seed.out | sed "s/^/   VIOLATION lines: /"
done
git -C /repo checkout -- .
for c in "$@"; do cp /tmp/verif_ev_backup/$c.json /verif/evidence/$c.json 2>/dev/null; done
rm -rf /tmp/verif_ev_backup /verif/evidence/replays
git -C /repo status --short | head -3
