#!/bin/sh
# usage: dev/try_seed.sh <patch.diff> <check ids...>   - apply a seeded change to /repo, run checks, undo
P=$1; shift
git -C /repo apply "$P" || exit 2
for c in "$@"; do
  /verif/bin/check $c 2>&1 | grep -v "^VIOLATION" | tail -1
  /verif/bin/check $c 2>&1 | grep -c "^VIOLATION" | sed "s/^/   VIOLATION lines: /"
done
git -C /repo checkout -- .
git -C /repo status --short | head -3
