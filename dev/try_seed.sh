#!/bin/sh
# usage: dev/try_seed.sh <patch.diff> <check ids...>   - apply a seeded change to /repo, run checks, undo
P=$1; shift
if [ -n "$(git -C /repo status --porcelain)" ]; then echo "uncommitted changes in /repo - commit them first"; exit 2; fi
rm -rf /tmp/verif_ev_backup && cp -r /verif/evidence /tmp/verif_ev_backup
git -C /repo apply "$P" || exit 2
for c in "$@"; do
  /verif/bin/check $c 2>&1 | grep -v "^VIOLATION" | tail -1
  /verif/bin/check $c 2>&1 | grep -c "^VIOLATION" | sed "s/^/   VIOLATION lines: /"
done
git -C /repo checkout -- .
for c in "$@"; do cp /tmp/verif_ev_backup/$c.json /verif/evidence/$c.json 2>/dev/null; done
rm -rf /tmp/verif_ev_backup
git -C /repo status --short | head -3
