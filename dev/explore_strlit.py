import sys, time, json, collections
sys.path.insert(0, '/verif')
from harness import strlit, pool, tlc
N = int(sys.argv[1]) if len(sys.argv) > 1 else 3
keep = int(sys.argv[2]) if len(sys.argv) > 2 else 1
fmt = sys.argv[3] if len(sys.argv) > 3 else "black"
res = tlc.run_tlc("MC_StrLit", "StrLit.cfg", overrides={"N": N, "Mode": "emit"})
cases = strlit.load_cases(res.out_dir, 1, keep)
tlc.cleanup(res)
print(len(cases), "strings")
t = time.time()
out = pool.parallel_map(strlit.run_batch, [(b, 1, fmt) for b in pool.chunks(cases, 16)])
print("%.1fs" % (time.time() - t))
cnt = collections.Counter(); ex = {}
for b in out:
    for r in b:
        if "error" in r: cnt["ERROR"] += 1; ex.setdefault("ERROR", r); continue
        for m in r["mism"]:
            k = (m["clause"], m["ctx"]); cnt[k] += 1; ex.setdefault(k, m)
for k, v in sorted(cnt.items(), key=str): print(k, v)
for k, m in list(ex.items())[:12]: print(k, json.dumps(m)[:400])
